package props

// Fragment write-path effect analysis (engine E2), shared by C07, C09, C10,
// C12, C16 and C28.
//
// Slots are derived from the code on every run:
//   * storage mutators: methods of *roaring.Bitmap that (transitively) write
//     their receiver's container collection, and Containers interface methods
//     whose slice implementation writes the collection;
//   * origins: every function of package pilosa that applies such a mutator to
//     `<fragment>.storage` (or reassigns `<fragment>.storage`);
//   * boundaries: every fragment-internal function (receiver or parameter of
//     type *fragment) that is called from non-fragment code, exported, or has no
//     caller.
// Rule: for every origin O and boundary B, on every path through B that
// performs O's mutation and reaches a *normal* return (error exits and "the
// mutator reported no change" exits are exempt), the required effect occurs
// after the mutation.

import (
	"fmt"
	"go/ast"
	"go/constant"
	"go/token"
	"go/types"
	"sort"
	"strings"

	"verif/checker/core"
	"verif/checker/flow"

	"golang.org/x/tools/go/packages"
)

type fxKind int

const (
	fxChecksum fxKind = iota
	fxRowCache
	fxCountCache
	fxMaxRow
	fxDurable
)

func (k fxKind) String() string {
	return [...]string{"checksum-invalidation", "rowcache-invalidation", "countcache-update", "maxrow-update", "durability"}[k]
}

const (
	bDPrev     flow.State = 1 << iota // storage mutated earlier, effect still owed
	bDLast                            // ... by the most recent direct mutator call
	bErr                              // on a path where an error was observed non-nil
	bCalleeErr                        // last summarised callee returned through an error exit
	bNoLog                            // OpWriter was set to nil on this path
	bSnapQ                            // a snapshot was queued on this path
	bFresh                            // <frag>.storage was observed nil on this path (initialisation, not mutation)
	bPT                               // the function's first bool parameter is known true
	bPF                               // ... known false
	bExitErr                          // this return was classified an error exit (sticky through defers)
	bFault                            // an error was observed non-nil somewhere on this path (I/O fault path)
)

const roaringPath = core.ModPath + "/roaring"

type fxBase struct {
	p    *core.Program
	pk   *packages.Package
	info *types.Info

	bitmapWriters  map[string]bool // *roaring.Bitmap methods writing the receiver's collection
	bitmapLoggers  map[string]bool // ... that also append to the op log
	contWriters    map[string]bool // Containers interface methods writing the collection
	removeOnly     map[string]bool
	decls          map[*types.Func]*ast.FuncDecl
	internal       map[*types.Func]bool
	callers        map[*types.Func][]*types.Func
	identityParams map[types.Object]bool // params always bound to <frag>.storage at every call site
	snapshotWriter map[*types.Func]bool
}

func newFxBase(p *core.Program) (*fxBase, error) {
	b := &fxBase{p: p, pk: p.Pkg(""), decls: map[*types.Func]*ast.FuncDecl{}, internal: map[*types.Func]bool{},
		callers: map[*types.Func][]*types.Func{}, identityParams: map[types.Object]bool{}, snapshotWriter: map[*types.Func]bool{}}
	if b.pk == nil {
		return nil, fmt.Errorf("package %s not loaded", core.ModPath)
	}
	b.info = b.pk.TypesInfo
	rp := p.Pkg("roaring")
	if rp == nil {
		return nil, fmt.Errorf("package roaring not loaded")
	}
	// Containers writers, from the slice implementation.
	b.contWriters = map[string]bool{}
	scw := core.ParamEffects(rp, func(info *types.Info, n ast.Node) []ast.Expr {
		as, ok := n.(*ast.AssignStmt)
		if !ok {
			return nil
		}
		var out []ast.Expr
		for _, l := range as.Lhs {
			e := ast.Unparen(l)
			if ix, ok := e.(*ast.IndexExpr); ok {
				e = ast.Unparen(ix.X)
			}
			for _, fld := range []string{"keys", "containers"} {
				if x, ok := core.FieldSel(info, e, roaringPath, "sliceContainers", fld); ok {
					out = append(out, x)
				}
			}
		}
		return out
	})
	for fn, eff := range scw {
		if eff[0] && recvNamed(fn, "sliceContainers") {
			b.contWriters[fn.Name()] = true
		}
	}
	// Bitmap writers.
	b.bitmapWriters = map[string]bool{}
	bw := core.ParamEffects(rp, func(info *types.Info, n ast.Node) []ast.Expr {
		switch x := n.(type) {
		case *ast.AssignStmt:
			var out []ast.Expr
			for _, l := range x.Lhs {
				if r, ok := core.FieldSel(info, l, roaringPath, "Bitmap", "Containers"); ok {
					out = append(out, r)
				}
			}
			return out
		case *ast.CallExpr:
			sel, ok := ast.Unparen(x.Fun).(*ast.SelectorExpr)
			if !ok || !b.contWriters[sel.Sel.Name] {
				return nil
			}
			if r, ok := core.FieldSel(info, sel.X, roaringPath, "Bitmap", "Containers"); ok {
				return []ast.Expr{r}
			}
		}
		return nil
	})
	for fn, eff := range bw {
		if eff[0] && recvNamed(fn, "Bitmap") && representationOnly[fn.Name()] == "" {
			b.bitmapWriters[fn.Name()] = true
		}
	}
	b.bitmapLoggers = map[string]bool{}
	bl := core.ParamEffects(rp, func(info *types.Info, n ast.Node) []ast.Expr {
		if c, ok := n.(*ast.CallExpr); ok {
			if fn := core.CalleeOf(info, c); fn != nil && fn.Name() == "writeOp" && recvNamed(fn, "Bitmap") {
				if sel, ok := ast.Unparen(c.Fun).(*ast.SelectorExpr); ok {
					return []ast.Expr{sel.X}
				}
			}
		}
		return nil
	})
	for fn, eff := range bl {
		if eff[0] && recvNamed(fn, "Bitmap") {
			b.bitmapLoggers[fn.Name()] = true
		}
	}
	// frozen: mutators that can only delete bits (cannot create a row).
	b.removeOnly = map[string]bool{"Remove": true, "RemoveN": true, "DirectRemoveN": true, "remove": true}

	// declarations, internal set, callers
	for _, fd := range core.AllFuncDecls(b.pk) {
		obj, _ := b.info.Defs[fd.Name].(*types.Func)
		if obj == nil || fd.Body == nil {
			continue
		}
		b.decls[obj] = fd
		sig := obj.Type().(*types.Signature)
		isInt := sig.Recv() != nil && core.IsNamed(sig.Recv().Type(), core.ModPath, "fragment")
		for i := 0; i < sig.Params().Len(); i++ {
			if core.IsNamed(sig.Params().At(i).Type(), core.ModPath, "fragment") {
				if _, isPtr := sig.Params().At(i).Type().(*types.Pointer); isPtr {
					isInt = true
				}
			}
		}
		if isInt {
			b.internal[obj] = true
		}
	}
	for obj, fd := range b.decls {
		ast.Inspect(fd.Body, func(n ast.Node) bool {
			if c, ok := n.(*ast.CallExpr); ok {
				if cal := core.CalleeOf(b.info, c); cal != nil && b.decls[cal] != nil {
					b.callers[cal] = append(b.callers[cal], obj)
				}
			}
			return true
		})
	}
	// identity params: parameter p of F of type *roaring.Bitmap such that every
	// call site of F passes `<frag>.storage` (assigning p to <frag>.storage is
	// then not a content change).
	for obj, fd := range b.decls {
		sig := obj.Type().(*types.Signature)
		for i := 0; i < sig.Params().Len(); i++ {
			pv := sig.Params().At(i)
			if !core.IsNamed(pv.Type(), roaringPath, "Bitmap") {
				continue
			}
			all, n := true, 0
			for _, fd2 := range b.decls {
				ast.Inspect(fd2.Body, func(nn ast.Node) bool {
					c, ok := nn.(*ast.CallExpr)
					if !ok || core.CalleeOf(b.info, c) != obj || i >= len(c.Args) {
						return true
					}
					n++
					if _, ok := core.FieldSel(b.info, c.Args[i], core.ModPath, "fragment", "storage"); !ok {
						all = false
					}
					return true
				})
			}
			_ = fd
			if all && n > 0 {
				b.identityParams[pv] = true
			}
		}
	}
	// snapshot writer: calls (*roaring.Bitmap).WriteTo and os.Rename(_, <frag>.path)
	for obj, fd := range b.decls {
		hasWrite, hasRename := false, false
		ast.Inspect(fd.Body, func(n ast.Node) bool {
			if c, ok := n.(*ast.CallExpr); ok {
				if fn := core.CalleeOf(b.info, c); fn != nil {
					if fn.Name() == "WriteTo" && recvNamed(fn, "Bitmap") {
						hasWrite = true
					}
					if b.isRenameToFragPath(c) {
						hasRename = true
					}
				}
			}
			return true
		})
		if hasWrite && hasRename {
			b.snapshotWriter[obj] = true
		}
	}
	return b, nil
}

func (b *fxBase) isRenameToFragPath(c *ast.CallExpr) bool {
	fn := core.CalleeOf(b.info, c)
	if fn == nil || fn.Pkg() == nil || fn.Pkg().Path() != "os" || fn.Name() != "Rename" || len(c.Args) != 2 {
		return false
	}
	_, ok := core.FieldSel(b.info, c.Args[1], core.ModPath, "fragment", "path")
	return ok
}

func recvNamed(fn *types.Func, name string) bool {
	sig, ok := fn.Type().(*types.Signature)
	if !ok || sig.Recv() == nil {
		return false
	}
	n := core.NamedOf(sig.Recv().Type())
	return n != nil && n.Obj().Name() == name
}

// storageRecv: is e `<X>.storage` with X a fragment?
func (b *fxBase) isFragStorage(e ast.Expr) bool {
	_, ok := core.FieldSel(b.info, e, core.ModPath, "fragment", "storage")
	return ok
}

// representationOnly: *roaring.Bitmap methods that write the container
// collection without changing the set of bits (frozen, one reason each).
var representationOnly = map[string]string{
	"Optimize":            "re-encodes containers (array/bitmap/run); the set is unchanged",
	"WriteTo":             "calls Optimize, then serialises",
	"RemapRoaringStorage": "re-points container storage at a new mapping of the same bytes",
}

type mutation struct {
	call     ast.Node
	name     string
	logging  bool
	mayAdd   bool
	pos      token.Pos
	logParam ast.Expr // ImportRoaringBits' log argument, when present
}

// directMutation classifies node n (call or assignment) as a direct storage
// mutation.
func (b *fxBase) directMutation(n ast.Node) *mutation {
	switch x := n.(type) {
	case *ast.CallExpr:
		sel, ok := ast.Unparen(x.Fun).(*ast.SelectorExpr)
		if !ok {
			return nil
		}
		fn := core.CalleeOf(b.info, x)
		if fn == nil {
			return nil
		}
		if b.isFragStorage(sel.X) && recvNamed(fn, "Bitmap") && b.bitmapWriters[fn.Name()] {
			m := &mutation{call: x, name: "Bitmap." + fn.Name(), logging: b.bitmapLoggers[fn.Name()], mayAdd: !b.removeOnly[fn.Name()], pos: x.Pos()}
			// a `log bool` parameter decides logging for that call
			sig := fn.Type().(*types.Signature)
			for i := 0; i < sig.Params().Len() && i < len(x.Args); i++ {
				if sig.Params().At(i).Name() == "log" {
					if tv, ok := b.info.Types[x.Args[i]]; ok && tv.Value != nil && tv.Value.Kind() == constant.Bool {
						m.logging = m.logging && constant.BoolVal(tv.Value)
					} else {
						m.logging = false
					}
				}
			}
			return m
		}
		// <frag>.storage.Containers.<writer>(...)
		if cx, ok := core.FieldSel(b.info, sel.X, roaringPath, "Bitmap", "Containers"); ok && b.isFragStorage(cx) && b.contWriters[sel.Sel.Name] {
			return &mutation{call: x, name: "Containers." + sel.Sel.Name, logging: false, mayAdd: sel.Sel.Name != "Remove", pos: x.Pos()}
		}
	case *ast.AssignStmt:
		for i, l := range x.Lhs {
			if !b.isFragStorage(l) {
				continue
			}
			if len(x.Rhs) == len(x.Lhs) {
				if id, ok := ast.Unparen(x.Rhs[i]).(*ast.Ident); ok && b.identityParams[b.info.ObjectOf(id)] {
					continue
				}
			}
			return &mutation{call: x, name: "storage=", logging: false, mayAdd: true, pos: x.Pos()}
		}
	}
	return nil
}

// origins lists the functions that directly mutate fragment storage.
func (b *fxBase) origins() map[*types.Func][]*mutation {
	out := map[*types.Func][]*mutation{}
	for obj, fd := range b.decls {
		parents := parentMap(fd.Body)
		ast.Inspect(fd.Body, func(n ast.Node) bool {
			if n == nil {
				return false
			}
			if m := b.directMutation(n); m != nil {
				if m.name == "storage=" && b.guardedByNilStorage(n, parents) {
					return true
				}
				out[obj] = append(out[obj], m)
			}
			return true
		})
	}
	return out
}

func parentMap(root ast.Node) map[ast.Node]ast.Node {
	pm := map[ast.Node]ast.Node{}
	var stack []ast.Node
	ast.Inspect(root, func(n ast.Node) bool {
		if n == nil {
			stack = stack[:len(stack)-1]
			return false
		}
		if len(stack) > 0 {
			pm[n] = stack[len(stack)-1]
		}
		stack = append(stack, n)
		return true
	})
	return pm
}

// guardedByNilStorage: the assignment initialises a nil storage
// (`if f.storage == nil { f.storage = ... }`).
func (b *fxBase) guardedByNilStorage(n ast.Node, parents map[ast.Node]ast.Node) bool {
	for p := parents[n]; p != nil; p = parents[p] {
		ifs, ok := p.(*ast.IfStmt)
		if !ok {
			continue
		}
		be, ok := ast.Unparen(ifs.Cond).(*ast.BinaryExpr)
		if ok && be.Op == token.EQL && b.isFragStorage(be.X) {
			if id, ok := ast.Unparen(be.Y).(*ast.Ident); ok && id.Name == "nil" {
				return true
			}
		}
	}
	return false
}

func (b *fxBase) boundaries() []*types.Func {
	var out []*types.Func
	for obj := range b.internal {
		isB := obj.Exported() || len(b.callers[obj]) == 0
		for _, c := range b.callers[obj] {
			if !b.internal[c] {
				isB = true
			}
		}
		if isB {
			out = append(out, obj)
		}
	}
	sort.Slice(out, func(i, j int) bool { return out[i].Pos() < out[j].Pos() })
	return out
}

func (b *fxBase) fname(fn *types.Func) string {
	if fd := b.decls[fn]; fd != nil {
		return core.FuncName(fd)
	}
	return fn.Name()
}

// ---------------------------------------------------------------------------

type fxRun struct {
	b      *fxBase
	kind   fxKind
	origin *types.Func
	memo   map[fxKey]*fxSum
	active map[fxKey]bool
	nCalls int
}

type fxKey struct {
	fn *types.Func
	in flow.State
}
type fxSum struct {
	normal, errs []flow.State
	unsupported  string
}

func (r *fxRun) summary(fn *types.Func, in flow.State) *fxSum {
	key := fxKey{fn, in}
	if s, ok := r.memo[key]; ok {
		return s
	}
	if r.active[key] {
		return &fxSum{normal: []flow.State{in}}
	}
	r.active[key] = true
	defer delete(r.active, key)
	fd := r.b.decls[fn]
	sum := &fxSum{}
	sig := fn.Type().(*types.Signature)
	returnsErr := sig.Results().Len() > 0 && flow.IsErrorType(sig.Results().At(sig.Results().Len()-1).Type())
	info := r.b.info

	changedVars := map[types.Object]bool{} // bound to the count/flag result of a direct mutator
	rowSetVars := map[types.Object]bool{}  // bound to a map result of a direct mutator
	changesVars := map[types.Object]bool{} // value var of a range over a rowSet var
	cacheOnVars := map[types.Object]bool{} // x := f.CacheType != CacheTypeNone
	isOrigin := fn == r.origin
	var boolParam types.Object
	for i := 0; i < sig.Params().Len(); i++ {
		if bt, ok := sig.Params().At(i).Type().Underlying().(*types.Basic); ok && bt.Kind() == types.Bool {
			boolParam = sig.Params().At(i)
			break
		}
	}
	boolLit := func(e ast.Expr) (val, ok bool) {
		if tv, has := info.Types[e]; has && tv.Value != nil && tv.Value.Kind() == constant.Bool {
			return constant.BoolVal(tv.Value), true
		}
		return false, false
	}

	nset, eset := map[flow.State]bool{}, map[flow.State]bool{}

	var hooks flow.Hooks
	hooks.Info = info
	hooks.Atom = func(n ast.Node, s flow.State) []flow.State {
		switch x := n.(type) {
		case *ast.CallExpr:
			// builtin delete(f.checksums, k)
			if core.BuiltinName(info, x) == "delete" && len(x.Args) == 2 {
				if _, ok := core.FieldSel(info, x.Args[0], core.ModPath, "fragment", "checksums"); ok && r.kind == fxChecksum {
					return []flow.State{s &^ (bDPrev | bDLast)}
				}
				return []flow.State{s}
			}
			fn2 := core.CalleeOf(info, x)
			sel, _ := ast.Unparen(x.Fun).(*ast.SelectorExpr)
			// effects
			if sel != nil && fn2 != nil {
				switch r.kind {
				case fxRowCache:
					if _, ok := core.FieldSel(info, sel.X, core.ModPath, "fragment", "rowCache"); ok && fn2.Name() == "Add" && len(x.Args) == 2 {
						if id, ok := ast.Unparen(x.Args[1]).(*ast.Ident); ok && id.Name == "nil" {
							return []flow.State{s &^ (bDPrev | bDLast)}
						}
					}
				case fxCountCache:
					if _, ok := core.FieldSel(info, sel.X, core.ModPath, "fragment", "cache"); ok && (fn2.Name() == "Add" || fn2.Name() == "BulkAdd") {
						return []flow.State{s &^ (bDPrev | bDLast)}
					}
				case fxDurable:
					if r.b.isRenameToFragPath(x) {
						return []flow.State{s &^ (bDPrev | bDLast | bSnapQ)}
					}
					// <frag>.snapshotCond.Wait() after a queued snapshot
					if fn2.Name() == "Wait" {
						if _, ok := core.FieldSel(info, sel.X, core.ModPath, "fragment", "snapshotCond"); ok && s&bSnapQ != 0 {
							return []flow.State{s &^ (bDPrev | bDLast | bSnapQ)}
						}
					}
				}
			}
			if isOrigin {
				if m := r.b.directMutation(x); m != nil {
					return []flow.State{r.applyMutation(m, s)}
				}
			}
			if fn2 != nil && r.b.decls[fn2] != nil {
				r.nCalls++
				in2 := s &^ (bErr | bCalleeErr | bPT | bPF | bFresh | bExitErr | bFault)
				if in2&bDLast != 0 {
					in2 = in2&^bDLast | bDPrev
				}
				sig2 := fn2.Type().(*types.Signature)
				for i := 0; i < sig2.Params().Len() && i < len(x.Args); i++ {
					if bt, ok := sig2.Params().At(i).Type().Underlying().(*types.Basic); ok && bt.Kind() == types.Bool {
						if v, ok := boolLit(x.Args[i]); ok {
							if v {
								in2 |= bPT
							} else {
								in2 |= bPF
							}
						}
						break
					}
				}
				keep := s & (bErr | bPT | bPF | bFresh | bExitErr | bFault)
				cs := r.summary(fn2, in2)
				if cs.unsupported != "" && sum.unsupported == "" {
					sum.unsupported = r.b.fname(fn2) + ": " + cs.unsupported
				}
				var out []flow.State
				// OpWriter detachment flows into callees, not out of them: a
				// callee that detaches the log does so on its own failure paths
				// (safeClose), which reopen() repairs at the next entry point.
				strip := flow.State(0)
				if s&bNoLog == 0 {
					strip = bNoLog
				}
				for _, e := range cs.normal {
					out = append(out, e&^strip|keep)
				}
				for _, e := range cs.errs {
					out = append(out, e&^strip|keep|bCalleeErr|bFault)
				}
				return out
			}
			return []flow.State{s}
		case *ast.AssignStmt:
			// bind result variables of a direct mutator call
			if isOrigin && len(x.Rhs) == 1 {
				if c, ok := ast.Unparen(x.Rhs[0]).(*ast.CallExpr); ok {
					if m := r.b.directMutation(c); m != nil {
						for _, l := range x.Lhs {
							id, ok := l.(*ast.Ident)
							if !ok || id.Name == "_" {
								continue
							}
							o := info.ObjectOf(id)
							if o == nil {
								continue
							}
							switch t := o.Type().Underlying().(type) {
							case *types.Basic:
								if t.Info()&(types.IsBoolean|types.IsInteger) != 0 {
									changedVars[o] = true
								}
							case *types.Map:
								rowSetVars[o] = true
							}
						}
					}
				}
			}
			if len(x.Rhs) == 1 && len(x.Lhs) == 1 {
				if id, ok := x.Lhs[0].(*ast.Ident); ok && r.isCacheOnExpr(x.Rhs[0]) {
					if o := info.ObjectOf(id); o != nil {
						cacheOnVars[o] = true
					}
				}
			}
			out := s
			for i, l := range x.Lhs {
				if id, ok := l.(*ast.Ident); ok && boolParam != nil && info.ObjectOf(id) == boolParam {
					out &^= bPT | bPF
					if len(x.Rhs) == len(x.Lhs) {
						if v, ok := boolLit(x.Rhs[i]); ok {
							if v {
								out |= bPT
							} else {
								out |= bPF
							}
						}
					}
				}
				if _, ok := core.FieldSel(info, l, core.ModPath, "fragment", "checksums"); ok && r.kind == fxChecksum {
					out &^= bDPrev | bDLast
				}
				if _, ok := core.FieldSel(info, l, core.ModPath, "fragment", "rowCache"); ok && r.kind == fxRowCache {
					out &^= bDPrev | bDLast
				}
				if _, ok := core.FieldSel(info, l, core.ModPath, "fragment", "cache"); ok && r.kind == fxCountCache {
					out &^= bDPrev | bDLast
				}
				if _, ok := core.FieldSel(info, l, core.ModPath, "fragment", "maxRowID"); ok && r.kind == fxMaxRow {
					out &^= bDPrev | bDLast
				}
				// <frag>.storage.OpWriter = nil / non-nil
				if ox, ok := core.FieldSel(info, l, roaringPath, "Bitmap", "OpWriter"); ok && r.b.isFragStorage(ox) && len(x.Rhs) == len(x.Lhs) {
					if id, ok := ast.Unparen(x.Rhs[i]).(*ast.Ident); ok && id.Name == "nil" {
						out |= bNoLog
					} else {
						out &^= bNoLog
					}
				}
			}
			if isOrigin {
				if m := r.b.directMutation(x); m != nil && !r.b.guardedByNilStorage(x, parentMap(r.b.decls[fn].Body)) {
					out = r.applyMutation(m, out)
				}
			}
			return []flow.State{out}
		case *ast.SendStmt:
			if r.kind == fxDurable {
				if _, ok := core.FieldSel(info, x.Chan, core.ModPath, "fragment", "snapshotQueue"); ok {
					return []flow.State{s | bSnapQ}
				}
			}
		}
		return []flow.State{s}
	}
	hooks.Refine = func(cond ast.Expr, taken bool, s flow.State) (flow.State, bool) {
		if _, neq, ok := flow.IsErrNilTest(info, cond); ok {
			isErrBranch := taken == neq
			if s&bCalleeErr != 0 {
				if !isErrBranch {
					return s, false
				}
				return s&^bCalleeErr | bErr | bFault, true
			}
			if isErrBranch {
				return s | bErr | bFault, true
			}
			return s &^ bErr, true
		}
		c := ast.Unparen(cond)
		// the function's bool parameter, when its value is known on this path
		if boolParam != nil {
			neg := false
			e := c
			if ue, ok := e.(*ast.UnaryExpr); ok && ue.Op == token.NOT {
				neg, e = true, ast.Unparen(ue.X)
			}
			if id, ok := e.(*ast.Ident); ok && info.ObjectOf(id) == boolParam {
				want := taken != neg // value the parameter must have on this branch
				if (want && s&bPF != 0) || (!want && s&bPT != 0) {
					return s, false
				}
				if want {
					return s | bPT, true
				}
				return s | bPF, true
			}
		}
		// <frag>.snapshotting: true = a snapshot is pending (it will run after
		// this critical section and cover the mutation); false after a queued
		// snapshot = that snapshot completed.
		if r.kind == fxDurable {
			if _, ok := core.FieldSel(info, c, core.ModPath, "fragment", "snapshotting"); ok {
				if taken {
					return s | bSnapQ, true
				}
				if s&bSnapQ != 0 {
					return s &^ (bDPrev | bDLast | bSnapQ), true
				}
				return s, true
			}
		}
		// <frag>.storage == nil
		if be, ok := c.(*ast.BinaryExpr); ok && (be.Op == token.EQL || be.Op == token.NEQ) && r.b.isFragStorage(be.X) {
			if id, ok := ast.Unparen(be.Y).(*ast.Ident); ok && id.Name == "nil" {
				if (be.Op == token.EQL) == taken {
					return s | bFresh, true
				}
				return s, true
			}
		}
		// !changed  /  changed == 0  /  changes == 0
		if ue, ok := c.(*ast.UnaryExpr); ok && ue.Op == token.NOT {
			if id, ok := ast.Unparen(ue.X).(*ast.Ident); ok {
				o := info.ObjectOf(id)
				if changedVars[o] && taken {
					return s &^ bDLast, true
				}
				if cacheOnVars[o] && taken && r.kind == fxCountCache {
					return s &^ (bDPrev | bDLast), true
				}
			}
		}
		if id, ok := c.(*ast.Ident); ok {
			o := info.ObjectOf(id)
			if changedVars[o] && !taken {
				return s &^ bDLast, true
			}
			if cacheOnVars[o] && !taken && r.kind == fxCountCache {
				return s &^ (bDPrev | bDLast), true
			}
		}
		if be, ok := c.(*ast.BinaryExpr); ok {
			if id, ok := ast.Unparen(be.X).(*ast.Ident); ok && isZeroLit(be.Y) {
				o := info.ObjectOf(id)
				zeroBranch := (be.Op == token.EQL && taken) || (be.Op == token.NEQ && !taken) || (be.Op == token.LEQ && taken) || (be.Op == token.GTR && !taken)
				if zeroBranch && changedVars[o] {
					return s &^ bDLast, true
				}
				if zeroBranch && changesVars[o] {
					return s &^ (bDPrev | bDLast), true
				}
			}
			if r.kind == fxCountCache && r.isCacheOnExpr(be) {
				// f.CacheType != CacheTypeNone false-branch: no count cache to update
				if (be.Op == token.NEQ && !taken) || (be.Op == token.EQL && taken) {
					return s &^ (bDPrev | bDLast), true
				}
			}
			if r.kind == fxMaxRow && !taken && mentionsField(info, be, "maxRowID") && (be.Op == token.GTR || be.Op == token.LSS || be.Op == token.GEQ || be.Op == token.LEQ) {
				// `if row > f.maxRowID { f.maxRowID = row }`: not-greater needs no update
				return s &^ (bDPrev | bDLast), true
			}
		}
		return s, true
	}
	hooks.RangeAtLeastOnce = func(rs *ast.RangeStmt) bool {
		tv, ok := info.Types[rs.X]
		if !ok {
			return false
		}
		m, ok := tv.Type.Underlying().(*types.Map)
		if !ok {
			return false
		}
		bt, ok := m.Key().Underlying().(*types.Basic)
		return ok && bt.Kind() == types.Uint64
	}
	hooks.EnterRange = func(rs *ast.RangeStmt, s flow.State) flow.State {
		if id, ok := ast.Unparen(rs.X).(*ast.Ident); ok && rowSetVars[info.ObjectOf(id)] {
			if v, ok := rs.Value.(*ast.Ident); ok {
				if o := info.ObjectOf(v); o != nil {
					changesVars[o] = true
				}
			}
		}
		return s
	}
	hooks.PreReturn = func(ret *ast.ReturnStmt, lit *ast.FuncLit, s flow.State) flow.State {
		isErr := false
		returnsErr := returnsErr
		if lit != nil {
			returnsErr = false
			if lsig, ok := info.TypeOf(lit).(*types.Signature); ok && lsig.Results().Len() > 0 {
				returnsErr = flow.IsErrorType(lsig.Results().At(lsig.Results().Len() - 1).Type())
			}
		}
		if returnsErr {
			if s&bErr != 0 {
				isErr = true
			}
			if ret != nil && len(ret.Results) > 0 {
				last := ast.Unparen(ret.Results[len(ret.Results)-1])
				if id, ok := last.(*ast.Ident); ok && id.Name == "nil" {
					isErr = false
				} else if s&bCalleeErr != 0 {
					isErr = true
				} else if c, ok := last.(*ast.CallExpr); ok && isErrCtor(info, c) {
					isErr = true
				} else if isPkgErrVar(info, last) {
					isErr = true
				}
			} else if ret != nil && len(ret.Results) == 0 && s&bCalleeErr != 0 {
				isErr = true // naked return with named results after a failed callee
			}
		}
		s &^= bErr | bCalleeErr
		if isErr {
			if lit != nil {
				s |= bCalleeErr // the enclosing code tests the literal's result
			} else {
				s |= bExitErr
			}
		}
		return s
	}
	hooks.Return = func(ret *ast.ReturnStmt, s flow.State) {
		isErr := s&bExitErr != 0
		out := s &^ (bErr | bCalleeErr | bPT | bPF | bFresh | bExitErr)
		if r.kind != fxDurable {
			out &^= bFault
		}
		if out&bDLast != 0 {
			out = out&^bDLast | bDPrev
		}
		if isErr {
			eset[out] = true
		} else {
			nset[out] = true
		}
	}
	it := flow.Run(hooks, fd.Body, in)
	if it.Unsupported != "" && sum.unsupported == "" {
		sum.unsupported = it.Unsupported
	}
	for s := range nset {
		sum.normal = append(sum.normal, s)
	}
	for s := range eset {
		sum.errs = append(sum.errs, s)
	}
	sort.Slice(sum.normal, func(i, j int) bool { return sum.normal[i] < sum.normal[j] })
	sort.Slice(sum.errs, func(i, j int) bool { return sum.errs[i] < sum.errs[j] })
	r.memo[key] = sum
	return sum
}

func (r *fxRun) applyMutation(m *mutation, s flow.State) flow.State {
	if s&bFresh != 0 {
		return s // storage was nil on this path: initialisation of an empty fragment
	}
	switch r.kind {
	case fxMaxRow:
		if !m.mayAdd {
			return s
		}
	case fxDurable:
		if m.logging && s&bNoLog == 0 {
			return s
		}
	}
	if s&bDLast != 0 {
		s = s&^bDLast | bDPrev
	}
	return s | bDLast
}

func (r *fxRun) isCacheOnExpr(e ast.Expr) bool {
	be, ok := ast.Unparen(e).(*ast.BinaryExpr)
	if !ok || (be.Op != token.NEQ && be.Op != token.EQL) {
		return false
	}
	_, okx := core.FieldSel(r.b.info, be.X, core.ModPath, "fragment", "CacheType")
	_, oky := core.FieldSel(r.b.info, be.Y, core.ModPath, "fragment", "CacheType")
	if !okx && !oky {
		return false
	}
	other := be.Y
	if oky {
		other = be.X
	}
	if id, ok := ast.Unparen(other).(*ast.Ident); ok {
		if c, ok := r.b.info.ObjectOf(id).(*types.Const); ok && c.Name() == "CacheTypeNone" {
			return true
		}
	}
	return false
}

func isZeroLit(e ast.Expr) bool {
	bl, ok := ast.Unparen(e).(*ast.BasicLit)
	return ok && bl.Value == "0"
}

func mentionsField(info *types.Info, e ast.Expr, field string) bool {
	found := false
	ast.Inspect(e, func(n ast.Node) bool {
		if sel, ok := n.(*ast.SelectorExpr); ok && sel.Sel.Name == field {
			if s, ok := info.Selections[sel]; ok && s.Kind() == types.FieldVal {
				found = true
			}
		}
		return true
	})
	return found
}

// isPkgErrVar: a package-level variable of type error (ErrXxx sentinels).
func isPkgErrVar(info *types.Info, e ast.Expr) bool {
	var id *ast.Ident
	switch x := e.(type) {
	case *ast.Ident:
		id = x
	case *ast.SelectorExpr:
		id = x.Sel
	}
	if id == nil {
		return false
	}
	v, ok := info.Uses[id].(*types.Var)
	return ok && v.Pkg() != nil && v.Parent() == v.Pkg().Scope() && flow.IsErrorType(v.Type())
}

// isErrCtor: fmt.Errorf / errors.New / errors.Errorf — always non-nil.
func isErrCtor(info *types.Info, c *ast.CallExpr) bool {
	fn := core.CalleeOf(info, c)
	if fn == nil || fn.Pkg() == nil {
		return false
	}
	switch fn.Pkg().Path() + "." + fn.Name() {
	case "fmt.Errorf", "errors.New", "github.com/pkg/errors.New", "github.com/pkg/errors.Errorf":
		return true
	}
	return false
}

// fxResult is one (origin, boundary) obligation.
type fxResult struct {
	origin, boundary *types.Func
	dirty            bool
	unsupported      string
	muts             []*mutation
}

// analyse runs one effect kind over all origins × boundaries.
func (b *fxBase) analyse(kind fxKind) []fxResult {
	var res []fxResult
	orig := b.origins()
	var os []*types.Func
	for o := range orig {
		os = append(os, o)
	}
	sort.Slice(os, func(i, j int) bool { return os[i].Pos() < os[j].Pos() })
	bounds := b.boundaries()
	for _, o := range os {
		run := &fxRun{b: b, kind: kind, origin: o, memo: map[fxKey]*fxSum{}, active: map[fxKey]bool{}}
		reach := b.reaches(o)
		for _, bd := range bounds {
			if !reach[bd] {
				continue
			}
			sum := run.summary(bd, 0)
			dirty := false
			for _, s := range sum.normal {
				if s&(bDPrev|bDLast) != 0 && s&bFault == 0 {
					dirty = true // (durability ignores I/O-fault paths: the property's model is process kill)
				}
			}
			res = append(res, fxResult{origin: o, boundary: bd, dirty: dirty, unsupported: sum.unsupported, muts: orig[o]})
		}
	}
	return res
}

// reaches: functions from which origin is reachable through static calls.
func (b *fxBase) reaches(origin *types.Func) map[*types.Func]bool {
	seen := map[*types.Func]bool{origin: true}
	work := []*types.Func{origin}
	for len(work) > 0 {
		f := work[len(work)-1]
		work = work[:len(work)-1]
		for _, c := range b.callers[f] {
			if !seen[c] {
				seen[c] = true
				work = append(work, c)
			}
		}
	}
	return seen
}

// report turns results into obligations.
func (b *fxBase) report(r *core.Report, rule string, kind fxKind, exempt map[string]string) (nOrigins int) {
	results := b.analyse(kind)
	origins := map[*types.Func]bool{}
	for _, x := range results {
		origins[x.origin] = true
		construct := b.fname(x.origin) + " via " + b.fname(x.boundary)
		var sites []string
		for _, m := range x.muts {
			sites = append(sites, fmt.Sprintf("%s at %s", m.name, b.p.Pos(m.pos)))
		}
		pos := b.p.Pos(x.muts[0].pos)
		if why, ok := exempt[construct]; ok {
			r.HoldAt(rule, construct, pos, "exempt: "+why)
			continue
		}
		if why, ok := exempt[b.fname(x.origin)]; ok {
			r.HoldAt(rule, construct, pos, "exempt: "+why)
			continue
		}
		switch {
		case x.unsupported != "":
			r.Undecide(rule, construct, pos, "control flow outside the modelled idioms: "+x.unsupported)
		case x.dirty:
			r.Violate(rule, construct, pos, fmt.Sprintf("a path through %s mutates fragment storage (%s) and reaches a normal return without %s", b.fname(x.boundary), strings.Join(sites, "; "), kind),
				"entry "+b.fname(x.boundary)+" at "+b.p.Pos(b.decls[x.boundary].Pos()), "mutation in "+b.fname(x.origin)+": "+strings.Join(sites, "; "))
		default:
			r.HoldAt(rule, construct, pos, fmt.Sprintf("every normal path after the mutation passes %s", kind))
		}
	}
	return len(origins)
}

// DebugFx prints summaries (development aid).
func DebugFx(p *core.Program, kind int, origin, boundary string) {
	b, _ := newFxBase(p)
	fmt.Println("bitmapWriters", b.bitmapWriters)
	fmt.Println("bitmapLoggers", b.bitmapLoggers)
	fmt.Println("contWriters", b.contWriters)
	var o, bd *types.Func
	for fn := range b.decls {
		if b.fname(fn) == origin {
			o = fn
		}
		if b.fname(fn) == boundary {
			bd = fn
		}
	}
	if o == nil || bd == nil {
		fmt.Println("not found")
		return
	}
	run := &fxRun{b: b, kind: fxKind(kind), origin: o, memo: map[fxKey]*fxSum{}, active: map[fxKey]bool{}}
	s := run.summary(bd, 0)
	fmt.Printf("summary normal=%v errs=%v unsup=%q\n", s.normal, s.errs, s.unsupported)
	for k, v := range run.memo {
		fmt.Printf("  %s in=%d -> normal=%v errs=%v\n", b.fname(k.fn), k.in, v.normal, v.errs)
	}
}
