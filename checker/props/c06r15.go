package props

import (
	"go/ast"
	"go/token"
	"go/types"
	"strings"

	"verif/checker/core"
	"verif/checker/flow"
)

// c06DecodeBeforeReplace: R15. A fragment method that receives bitmap data
// from outside (an io.Reader parameter) and renames a file onto the
// fragment's data path has, on every path to the rename, decoded that data
// with (*roaring.Bitmap).UnmarshalBinary and seen the error nil: once the
// rename has happened the previous data is gone, so the rejection must come
// first.
func c06DecodeBeforeReplace(p *core.Program, r *core.Report) {
	pk := p.Pkg("")
	if pk == nil {
		r.Undecide("R15", "package pilosa", "", "not loaded")
		return
	}
	info := pk.TypesInfo
	isRenameOntoPath := func(c *ast.CallExpr) bool {
		fn := core.CalleeOf(info, c)
		if fn == nil || fn.Pkg() == nil || fn.Pkg().Path() != "os" || fn.Name() != "Rename" || len(c.Args) != 2 {
			return false
		}
		_, ok := core.FieldSel(info, c.Args[1], core.ModPath, "fragment", "path")
		return ok
	}
	n := 0
	for _, fd := range core.AllFuncDecls(pk) {
		if fd.Body == nil || core.RecvName(fd) != "fragment" || strings.HasSuffix(p.Fset.Position(fd.Pos()).Filename, "_test.go") {
			continue
		}
		takesReader := false
		for _, f := range fd.Type.Params.List {
			if n := core.NamedOf(info.TypeOf(f.Type)); n != nil && n.Obj().Pkg() != nil && n.Obj().Pkg().Path() == "io" && n.Obj().Name() == "Reader" {
				takesReader = true
			}
		}
		renames := false
		ast.Inspect(fd.Body, func(m ast.Node) bool {
			if c, ok := m.(*ast.CallExpr); ok && isRenameOntoPath(c) {
				renames = true
			}
			return true
		})
		if !takesReader || !renames {
			continue
		}
		n++
		// state: per error variable, known nil / known non-nil / result of the decode
		type vb struct{ isNil, nonNil, decode flow.State }
		bits := map[types.Object]vb{}
		next := uint(1)
		bitsOf := func(o types.Object) (vb, bool) {
			if b, ok := bits[o]; ok {
				return b, true
			}
			if next+3 > 60 {
				return vb{}, false
			}
			b := vb{1 << next, 1 << (next + 1), 1 << (next + 2)}
			next += 3
			bits[o] = b
			return b, true
		}
		const bDecoded flow.State = 1
		errType := types.Universe.Lookup("error").Type()
		isErrVar := func(e ast.Expr) types.Object {
			id, ok := ast.Unparen(e).(*ast.Ident)
			if !ok {
				return nil
			}
			o := info.ObjectOf(id)
			if o == nil || !types.Identical(o.Type(), errType) {
				return nil
			}
			return o
		}
		directDecode := func(e ast.Expr) bool {
			c, ok := ast.Unparen(e).(*ast.CallExpr)
			if !ok {
				return false
			}
			fn := core.CalleeOf(info, c)
			return fn != nil && fn.Name() == "UnmarshalBinary" && recvNamed(fn, "Bitmap")
		}
		// the decode itself, or a function of this package that returns the decode's error
		isDecode := func(e ast.Expr) bool {
			if directDecode(e) {
				return true
			}
			c, ok := ast.Unparen(e).(*ast.CallExpr)
			if !ok {
				return false
			}
			fn := core.CalleeOf(info, c)
			if fn == nil || fn.Pkg() != pk.Types {
				return false
			}
			for _, hd := range core.AllFuncDecls(pk) {
				if info.Defs[hd.Name] != types.Object(fn) || hd.Body == nil {
					continue
				}
				found := false
				ast.Inspect(hd.Body, func(m ast.Node) bool {
					if ce, ok := m.(ast.Expr); ok && directDecode(ce) {
						found = true
					}
					return true
				})
				return found
			}
			return false
		}
		var bad []string
		h := flow.Hooks{Info: info}
		h.Atom = func(nd ast.Node, s flow.State) []flow.State {
			switch x := nd.(type) {
			case *ast.AssignStmt:
				for i, l := range x.Lhs {
					o := isErrVar(l)
					if o == nil {
						continue
					}
					b, ok := bitsOf(o)
					if !ok {
						continue
					}
					s &^= b.isNil | b.nonNil | b.decode
					if len(x.Rhs) == len(x.Lhs) && isDecode(x.Rhs[i]) {
						s |= b.decode
					}
				}
			case *ast.CallExpr:
				if isRenameOntoPath(x) && s&bDecoded == 0 {
					bad = append(bad, p.Pos(x.Pos()))
				}
			}
			return []flow.State{s}
		}
		h.Refine = func(cond ast.Expr, taken bool, s flow.State) (flow.State, bool) {
			be, ok := ast.Unparen(cond).(*ast.BinaryExpr)
			if !ok || (be.Op != token.EQL && be.Op != token.NEQ) {
				return s, true
			}
			var o types.Object
			if tv, ok := info.Types[be.Y]; ok && tv.IsNil() {
				o = isErrVar(be.X)
			} else if tv, ok := info.Types[be.X]; ok && tv.IsNil() {
				o = isErrVar(be.Y)
			}
			if o == nil {
				return s, true
			}
			b, ok := bitsOf(o)
			if !ok {
				return s, true
			}
			nilHere := (be.Op == token.EQL) == taken
			if nilHere {
				if s&b.nonNil != 0 {
					return s, false
				}
				s |= b.isNil
				if s&b.decode != 0 {
					s |= bDecoded
				}
			} else {
				if s&b.isNil != 0 {
					return s, false
				}
				s |= b.nonNil
			}
			return s, true
		}
		it := flow.Run(h, fd.Body, 0)
		construct := core.FuncName(fd) + ": received data is decoded before it replaces the data file"
		switch {
		case it.Unsupported != "":
			r.Undecide("R15", construct, p.Pos(fd.Pos()), it.Unsupported)
		case len(bad) > 0:
			r.Violate("R15", construct, p.Pos(fd.Pos()), "os.Rename onto <fragment>.path at "+strings.Join(dedupe(bad), ", ")+" is reached on a path where the received data has not been decoded successfully: data that does not decode is rejected only when the storage is reopened, with the previous data file already replaced")
		default:
			r.HoldAt("R15", construct, p.Pos(fd.Pos()), "every path to the rename passed `err == nil` for the result of Bitmap.UnmarshalBinary")
		}
	}
	r.Floor("C06/R15 fragment methods that replace the data file from a reader", n, 1)
}
