package props

import (
	"go/ast"
	"go/types"
	"strings"

	"verif/checker/core"
)

// c09BufferedSnapshots: rule R5. Bitmap.WriteTo emits a snapshot as many
// small writes (the header alone is two). Straight into a file that makes
// every boundary between two of them a point at which a kill leaves a file
// that is neither empty nor a bitmap, and the only recovery the fragment has
// is "size 0 means new". Every WriteTo of a roaring bitmap in package pilosa
// that targets a file therefore goes through a bufio.Writer.
func c09BufferedSnapshots(p *core.Program, r *core.Report) {
	pk := p.Pkg("")
	if pk == nil {
		return
	}
	info := pk.TypesInfo
	isOSFile := func(t types.Type) bool {
		if pt, ok := t.(*types.Pointer); ok {
			if n, ok := pt.Elem().(*types.Named); ok && n.Obj().Pkg() != nil && n.Obj().Pkg().Path() == "os" && n.Obj().Name() == "File" {
				return true
			}
		}
		return false
	}
	n := 0
	for _, fd := range core.AllFuncDecls(pk) {
		if fd.Body == nil || strings.HasSuffix(p.Fset.Position(fd.Pos()).Filename, "_test.go") {
			continue
		}
		ast.Inspect(fd.Body, func(m ast.Node) bool {
			c, ok := m.(*ast.CallExpr)
			if !ok || len(c.Args) != 1 {
				return true
			}
			g := core.CalleeOf(info, c)
			if g == nil || g.Name() != "WriteTo" {
				return true
			}
			sig, _ := g.Type().(*types.Signature)
			if sig == nil || sig.Recv() == nil || !core.IsNamed(sig.Recv().Type(), roaringPath, "Bitmap") {
				return true
			}
			n++
			construct := core.FuncName(fd) + ": Bitmap.WriteTo(" + types.ExprString(c.Args[0]) + ")"
			// the fragment's own data file (a temporary file that is renamed into place afterwards is R2's subject)
			_, isDataFile := core.FieldSel(info, c.Args[0], core.ModPath, "fragment", "file")
			if t := info.TypeOf(c.Args[0]); t != nil && isOSFile(t) && isDataFile {
				r.Violate("R5", construct, p.Pos(c.Pos()), "the bitmap is written straight into an *os.File: each of WriteTo's small writes becomes a system call, and a kill between two of them leaves a data file that is neither empty nor decodable -- the fragment, and with it the holder, fails to open at the next start")
			} else {
				r.HoldAt("R5", construct, p.Pos(c.Pos()), "not written straight into a file (buffered or in memory)")
			}
			return true
		})
	}
	r.Floor("C09/R5 Bitmap.WriteTo calls in package pilosa", n, 4)
}
