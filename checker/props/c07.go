package props

import "verif/checker/core"

func init() { register("C07", c07) }

func c07(p *core.Program, r *core.Report) {
	r.Rule("R1", "row-cache invalidation after storage mutation: for every function that mutates <fragment>.storage and every fragment entry point reaching it, every path from the mutation to a normal return passes <fragment>.rowCache.Add(_, nil) or replaces <fragment>.rowCache; error exits and no-change early returns are exempt")
	b, err := newFxBase(p)
	if err != nil {
		r.Undecide("R1", "fragment effects", "", err.Error())
		return
	}
	n := b.report(r, "R1", fxRowCache, nil)
	r.Floor("C07/R1 storage-mutating functions (origins)", n, 8)
	r.Rule("R5", "affected-row coverage: wherever a set of affected rows is built and handed to a position importer, every row a written position belongs to is in it — each pos(row, col) computed there inserts that same row variable, and rows computed inside a helper (BSI exists/sign/bit rows) lie within the affine range of keys inserted (one symbol: the bit depth)")
	r.NotDecided = "value-level equality of reads with the sequential model for all histories; which block/row an invalidation names beyond the syntactic row variable and the affine BSI range"
	c07Rows(p, r, b)
	r.Rule("R6", "the count cache is not storage: in every function that consults <fragment>.cache.Get, every path on which the value may be zero (a test of the value or of a local holding it, evaluated against 0) reads the row from storage (fragment.row/unprotectedRow/rowFromStorage/bit or a method of <fragment>.storage) before it returns")
	c07CacheIsNotStorage(p, r)
	r.Rule("R7", "changed means bits: a fragment method with a result named changed that fetches containers with Containers.Get sets changed = true, on a path that found such a container, only after a condition on that container's N()")
	c07ChangedMeansBits(p, r)
	// R8: the container lookaside of file-backed storage is one of this property's anchors: a stale
	// lookaside makes fragment.bit/value and the single-bit writers miss a completed import. The
	// obligations are C02-R1's, evaluated here under this property.
	r.Rule("R8", "lookaside coherence (= C02-R1): every method path of a Containers implementation that writes the collection refreshes or invalidates the most-recently-used container that Get/GetOrCreate answer from")
	{
		tmp := core.NewReport("C02", r.Tier)
		c02(p, tmp)
		nR8 := 0
		for _, o := range tmp.Obls {
			if o.Rule == "R1" {
				o.Rule = "R8"
				r.Obls = append(r.Obls, o)
				nR8++
			}
		}
		r.Floor("C07/R8 lookaside obligations taken over from C02-R1", nR8, 10)
	}
}
