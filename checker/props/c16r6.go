package props

import (
	"go/ast"
	"go/token"
	"go/types"
	"strings"

	"verif/checker/core"
	"verif/checker/flow"
)

// c16FilterFlowsDown: rule R6. A GroupBy filter is intersected into level 0
// only; deeper levels see it because each middle level is narrowed by the
// level above it. Narrowing a level before the filter has reached level 0
// leaves the first group combinations unfiltered.
func c16FilterFlowsDown(p *core.Program, r *core.Report) {
	pk := p.Pkg("")
	if pk == nil {
		return
	}
	info := pk.TypesInfo
	n := 0
	for _, fd := range core.AllFuncDecls(pk) {
		if fd.Body == nil || strings.HasSuffix(p.Fset.Position(fd.Pos()).Filename, "_test.go") {
			continue
		}
		if fd.Name.Name != "newGroupByIterator" && core.RecvName(fd) != "groupByIterator" {
			continue
		}
		isRowsElemRow := func(e ast.Expr) (idx ast.Expr, ok bool) { // X.rows[idx].row
			sel, ok1 := ast.Unparen(e).(*ast.SelectorExpr)
			if !ok1 || sel.Sel.Name != "row" {
				return nil, false
			}
			ix, ok1 := ast.Unparen(sel.X).(*ast.IndexExpr)
			if !ok1 {
				return nil, false
			}
			if _, ok1 := core.FieldSel(info, ix.X, core.ModPath, "groupByIterator", "rows"); !ok1 {
				return nil, false
			}
			return ix.Index, true
		}
		mentionsFilter := func(e ast.Node) bool {
			found := false
			ast.Inspect(e, func(m ast.Node) bool {
				if s, ok := m.(*ast.SelectorExpr); ok {
					if _, ok := core.FieldSel(info, s, core.ModPath, "groupByIterator", "filter"); ok {
						found = true
					}
				}
				return true
			})
			return found
		}
		readsLevelAbove := func(e ast.Node) bool {
			found := false
			ast.Inspect(e, func(m ast.Node) bool {
				if ex, ok := m.(ast.Expr); ok {
					if idx, ok := isRowsElemRow(ex); ok {
						if be, ok := ast.Unparen(idx).(*ast.BinaryExpr); ok && be.Op == token.SUB {
							if v, ok := c04ConstInt(info, be.Y); ok && v == 1 {
								found = true
							}
						}
					}
				}
				return true
			})
			return found
		}
		// only functions that do both
		hasFilter, hasNarrow := false, false
		ast.Inspect(fd.Body, func(m ast.Node) bool {
			if as, ok := m.(*ast.AssignStmt); ok && len(as.Lhs) == 1 && len(as.Rhs) == 1 {
				if _, ok := isRowsElemRow(as.Lhs[0]); ok {
					if mentionsFilter(as.Rhs[0]) {
						hasFilter = true
					}
					if readsLevelAbove(as.Rhs[0]) {
						hasNarrow = true
					}
				}
			}
			return true
		})
		if !hasFilter || !hasNarrow {
			continue
		}
		n++
		const (
			bFiltered flow.State = 1 << iota
			bNoFilter
		)
		var bad []string
		h := flow.Hooks{Info: info}
		h.Refine = func(c ast.Expr, taken bool, s flow.State) (flow.State, bool) {
			be, ok := ast.Unparen(c).(*ast.BinaryExpr)
			if !ok {
				return s, true
			}
			// no levels at all: len(X.rows) > 0 is false (nothing can be narrowed then)
			if call, ok := ast.Unparen(be.X).(*ast.CallExpr); ok && core.BuiltinName(info, call) == "len" && len(call.Args) == 1 {
				if _, ok := core.FieldSel(info, call.Args[0], core.ModPath, "groupByIterator", "rows"); ok {
					if v, ok := c04ConstInt(info, be.Y); ok && v == 0 {
						empty := (be.Op == token.GTR && !taken) || (be.Op == token.NEQ && !taken) || (be.Op == token.EQL && taken)
						if empty {
							return s | bNoFilter, true
						}
					}
				}
			}
			if be.Op != token.EQL && be.Op != token.NEQ {
				return s, true
			}
			var other ast.Expr
			if mentionsFilter(be.X) {
				other = be.Y
			} else if mentionsFilter(be.Y) {
				other = be.X
			} else {
				return s, true
			}
			if id, ok := ast.Unparen(other).(*ast.Ident); !ok || id.Name != "nil" {
				return s, true
			}
			isNil := (be.Op == token.EQL) == taken
			if isNil {
				return s | bNoFilter, true
			}
			return s, true
		}
		h.Atom = func(nd ast.Node, s flow.State) []flow.State {
			as, ok := nd.(*ast.AssignStmt)
			if !ok || len(as.Lhs) != 1 || len(as.Rhs) != 1 {
				return []flow.State{s}
			}
			idx, ok := isRowsElemRow(as.Lhs[0])
			if !ok {
				return []flow.State{s}
			}
			if mentionsFilter(as.Rhs[0]) {
				if v, ok := c04ConstInt(info, idx); ok && v == 0 {
					return []flow.State{s | bFiltered}
				}
				// nextAtIdx form: under i == 0
				return []flow.State{s | bFiltered}
			}
			if readsLevelAbove(as.Rhs[0]) && s&(bFiltered|bNoFilter) == 0 {
				bad = append(bad, p.Pos(as.Pos()))
			}
			return []flow.State{s}
		}
		it := flow.Run(h, fd.Body, 0)
		construct := core.FuncName(fd) + ": the filter reaches level 0 before levels are narrowed from above"
		if fd.Name.Name != "newGroupByIterator" {
			// methods advance one level per call and recurse upwards first: only the constructor walks all levels in one pass
			r.HoldAt("R6", construct, p.Pos(fd.Pos()), "not the constructor: levels above are advanced by the recursive call before this level is narrowed (R3 covers the recursion)")
			continue
		}
		switch {
		case it.Unsupported != "":
			r.Undecide("R6", construct, p.Pos(fd.Pos()), it.Unsupported)
		case len(bad) > 0:
			r.Violate("R6", construct, p.Pos(fd.Pos()), "a level is intersected with the level above it at "+strings.Join(dedupe(bad), ", ")+" on a path where the filter may be set but has not yet been intersected into level 0: the first group combinations of every shard (and of every page started with `previous`) are counted without the filter")
		default:
			r.HoldAt("R6", construct, p.Pos(fd.Pos()), "every narrowing from the level above follows the filter's intersection into level 0, or a test that there is no filter")
		}
	}
	r.Floor("C16/R6 GroupBy functions that both filter and narrow", n, 1)
	_ = types.Universe
}
