package props

import (
	"verif/checker/core"
)

func init() { register("C10", c10) }

func c10(p *core.Program, r *core.Report) {
	r.Rule("R1", "checksum invalidation after storage mutation: for every function that mutates <fragment>.storage (origin) and every fragment entry point that reaches it (boundary), every path from the mutation to a normal return passes delete(<fragment>.checksums, _) or an assignment to <fragment>.checksums; error exits and the mutator-reported-no-change early return are exempt")
	r.Rule("R2", "a cached checksum is current: a value stored into an element of <fragment>.checksums is a call result produced in that function with no Lock/Unlock/RLock/RUnlock of the fragment's mutex between its production and the store")
	c10ChecksumIsCurrent(p, r)
	r.NotDecided = "that the invalidated key is the block of the mutated row for every value (R3 checks the key expression's shape only); hash collisions"
	b, err := newFxBase(p)
	if err != nil {
		r.Undecide("R1", "fragment effects", "", err.Error())
		return
	}
	n := b.report(r, "R1", fxChecksum, nil)
	r.Floor("C10/R1 storage-mutating functions (origins)", n, 8)
	r.Count("bitmap_writer_methods", len(b.bitmapWriters))
	r.Count("containers_writer_methods", len(b.contWriters))
	r.Count("boundaries", len(b.boundaries()))
}
