package props

import (
	"go/ast"
	"strings"

	"verif/checker/core"
	"verif/checker/flow"
)

// c24MatchByKeyBytes: rule R5. The key index is an open-addressing hash
// table; a hash only chooses where to start probing. A probe that declares
// an occupied slot to be "this key" -- answering a lookup with its id, or
// reporting an insert as an overwrite -- must have compared the key bytes.
func c24MatchByKeyBytes(p *core.Program, r *core.Report) {
	pk := p.Pkg("")
	if pk == nil {
		return
	}
	info := pk.TypesInfo
	n := 0
	for _, fd := range core.AllFuncDecls(pk) {
		if fd.Body == nil || core.RecvName(fd) != "index" || strings.HasSuffix(p.Fset.Position(fd.Pos()).Filename, "_test.go") {
			continue
		}
		// probing functions: index into the receiver's elems inside a loop and return a bool
		probes := false
		ast.Inspect(fd.Body, func(m ast.Node) bool {
			if ix, ok := m.(*ast.IndexExpr); ok {
				if _, ok := core.FieldSel(info, ix.X, core.ModPath, "index", "elems"); ok {
					probes = true
				}
			}
			return true
		})
		res := fd.Type.Results
		if !probes || res == nil || res.NumFields() == 0 {
			continue
		}
		lastIsBool := false
		if t := info.TypeOf(res.List[len(res.List)-1].Type); t != nil && t.String() == "bool" {
			lastIsBool = true
		}
		if !lastIsBool {
			continue
		}
		n++
		const bEqual flow.State = 1
		var bad []string
		h := flow.Hooks{Info: info}
		h.Refine = func(c ast.Expr, taken bool, s flow.State) (flow.State, bool) {
			call, ok := ast.Unparen(c).(*ast.CallExpr)
			if !ok || !taken {
				return s, true
			}
			g := core.CalleeOf(info, call)
			if g == nil || g.Pkg() == nil || g.Pkg().Path() != "bytes" || g.Name() != "Equal" {
				return s, true
			}
			// one operand reads the stored key
			stored := false
			for _, a := range call.Args {
				ast.Inspect(a, func(m ast.Node) bool {
					if cc, ok := m.(*ast.CallExpr); ok {
						if k := core.CalleeOf(info, cc); k != nil && k.Name() == "lookupKey" {
							stored = true
						}
					}
					return true
				})
			}
			if stored {
				return s | bEqual, true
			}
			return s, true
		}
		h.EnterRange = nil
		h.Return = func(ret *ast.ReturnStmt, s flow.State) {
			if ret == nil || len(ret.Results) == 0 {
				return
			}
			last := ast.Unparen(ret.Results[len(ret.Results)-1])
			if id, ok := last.(*ast.Ident); ok && id.Name == "true" && s&bEqual == 0 {
				bad = append(bad, p.Pos(ret.Pos()))
			}
		}
		// the equality established in one probe step does not carry to the next slot:
		// interpret one iteration of the probing loop
		var loop *ast.ForStmt
		ast.Inspect(fd.Body, func(m ast.Node) bool {
			if f, ok := m.(*ast.ForStmt); ok && loop == nil {
				loop = f
			}
			return true
		})
		construct := core.FuncName(fd) + ": a slot is this key only after comparing the key bytes"
		if loop == nil {
			r.Undecide("R5", construct, p.Pos(fd.Pos()), "no probing loop")
			continue
		}
		it := flow.Run(h, c13IterationBody(loop.Body), 0)
		switch {
		case it.Unsupported != "":
			r.Undecide("R5", construct, p.Pos(fd.Pos()), it.Unsupported)
		case len(bad) > 0:
			r.Violate("R5", construct, p.Pos(fd.Pos()), "reports a match (returns true) at "+strings.Join(dedupe(bad), ", ")+" on a path that did not find bytes.Equal(<stored key>, key) true: two keys whose hashes coincide take each other's slot, the evicted key is given a new id on its next translation, and after a replay only one of them resolves")
		default:
			r.HoldAt("R5", construct, p.Pos(fd.Pos()), "every match follows a successful comparison of the stored key's bytes")
		}
	}
	r.Floor("C24/R5 probing functions of the key index", n, 2)
}
