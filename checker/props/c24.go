package props

import (
	"go/ast"
	"go/token"
	"go/types"

	"verif/checker/core"
)

func init() { register("C24", c24) }

var c24Spec = lockSpec{pkgRel: "", typ: "TranslateFile", mutex: "mu",
	guarded: set("cols", "rows", "n", "w", "writeNotify", "data", "file"),
	setup: map[string]string{
		"NewTranslateFile":      "constructor",
		"(*TranslateFile).Open": "open-time initialisation: the store is handed to its users only after Open returns (it replays the log before any reader or writer exists)",
	},
	exemptAccess: map[string]string{},
}

func c24(p *core.Program, r *core.Report) {
	r.Rule("R5", "a slot matches by key bytes: in every method of the translate key index that probes idx.elems and returns a bool, each iteration of the probing loop returns true only on a path where bytes.Equal over idx.lookupKey(<slot offset>) was found true")
	c24MatchByKeyBytes(p, r)
	r.Rule("R6", "table pointers are current: in a TranslateFile method that takes the write lock, a variable assigned from an element of the guarded maps cols/rows is used only after an assignment made since the last Lock/RLock/Unlock/RUnlock of the store's mutex")
	c24TablePointerIsCurrent(p, r)
	r.Rule("R1", "guarded-by TranslateFile.mu: the key tables (cols, rows), the log size n, the writer w, the mapped data, the file handle and writeNotify are accessed only with mu held (helpers that access them unlocked must be given the lock by every caller); they are written only under the exclusive lock; every Lock/RLock is released on every exit")
	r.NotDecided = "robin-hood insertion and growth, hash collisions, replication resume over the network, positivity and stability of ids as values"
	la := newLockAnalysis(p, c24Spec)
	if la == nil {
		r.Undecide("R1", "TranslateFile", "", "package not loaded")
		return
	}
	n := la.report(r, "R1")
	r.Floor("C24/R1 functions touching TranslateFile state", n, 12)
	c24Durable(p, r)
}

// c24Durable: R2 (log then acknowledge) and R4 (monotone id allocation).
func c24Durable(p *core.Program, r *core.Report) {
	r.Rule("R2", "log-then-acknowledge: TranslateFile.appendEntry reaches a normal return only after the entry was written, the buffered writer flushed and the file synced; every Translate*ToUint64 path that allocates an id (seq++) passes appendEntry before returning ids")
	r.Rule("R4", "monotone id allocation: an index's seq is written only by `seq++` in the translate functions (ids start at 1: zero is never handed out) and by the raise-only update in applyEntry")
	pk := p.Pkg("")
	info := pk.TypesInfo
	isFieldOf := func(e ast.Expr, typ, field string) bool {
		_, ok := core.FieldSel(info, e, core.ModPath, typ, field)
		return ok
	}
	methodOn := func(n ast.Node, typ, field, method string) bool {
		c, ok := n.(*ast.CallExpr)
		if !ok {
			return false
		}
		sel, ok := ast.Unparen(c.Fun).(*ast.SelectorExpr)
		return ok && sel.Sel.Name == method && isFieldOf(sel.X, typ, field)
	}
	if fd := core.FuncDecl(pk, "TranslateFile", "appendEntry"); fd != nil {
		res := runPathRule(pathRuleSpec{info: info, fd: fd, required: []func(ast.Node) bool{
			callTo(info, core.ModPath, "LogEntry", "WriteTo"),
			func(n ast.Node) bool { return methodOn(n, "TranslateFile", "w", "Flush") },
			func(n ast.Node) bool { return methodOn(n, "TranslateFile", "file", "Sync") },
		}})
		names := []string{"entry.WriteTo", "w.Flush", "file.Sync"}
		switch {
		case res.unsupported != "":
			r.Undecide("R2", "(*TranslateFile).appendEntry", p.Pos(fd.Pos()), res.unsupported)
		case len(res.missing) > 0:
			r.Violate("R2", "(*TranslateFile).appendEntry", p.Pos(res.witnessPos.Pos()), "a normal return is reachable without "+names[res.missing[0]]+": ids are acknowledged before the log entry that defines them is durable")
		default:
			r.HoldAt("R2", "(*TranslateFile).appendEntry", p.Pos(fd.Pos()), "write, flush and sync precede every normal return")
		}
	} else {
		r.Undecide("R2", "(*TranslateFile).appendEntry", "", "not found")
	}
	isSeqInc := func(n ast.Node) bool {
		inc, ok := n.(*ast.IncDecStmt)
		return ok && inc.Tok == token.INC && isFieldOf(inc.X, "index", "seq")
	}
	nAlloc := 0
	for _, fd := range core.AllFuncDecls(pk) {
		if fd.Body == nil {
			continue
		}
		has := false
		ast.Inspect(fd.Body, func(n ast.Node) bool {
			if isSeqInc(n) {
				has = true
			}
			return true
		})
		if !has {
			continue
		}
		nAlloc++
		construct := core.FuncName(fd) + " id allocation"
		res := runPathRule(pathRuleSpec{info: info, fd: fd, trigger: isSeqInc, required: []func(ast.Node) bool{callTo(info, core.ModPath, "TranslateFile", "appendEntry")}})
		switch {
		case res.unsupported != "":
			r.Undecide("R2", construct, p.Pos(fd.Pos()), res.unsupported)
		case len(res.missing) > 0:
			r.Violate("R2", construct, p.Pos(res.witnessPos.Pos()), "an id is allocated (seq++) and the function returns normally without appending the entry to the log: the key/id pair is lost on restart and the id is handed out again")
		default:
			r.HoldAt("R2", construct, p.Pos(fd.Pos()), "every allocating path appends the entry before returning")
		}
	}
	r.Floor("C24/R2 id-allocating functions", nAlloc, 2)
	// R4: writers of index.seq
	nW := 0
	for _, fd := range core.AllFuncDecls(pk) {
		if fd.Body == nil {
			continue
		}
		parents := parentMap(fd.Body)
		ast.Inspect(fd.Body, func(n ast.Node) bool {
			switch x := n.(type) {
			case *ast.IncDecStmt:
				if isFieldOf(x.X, "index", "seq") {
					nW++
					r.Check(x.Tok == token.INC, "R4", core.FuncName(fd)+" seq"+x.Tok.String(), p.Pos(x.Pos()), "pre-increment allocation", "seq is decremented: ids can be handed out twice")
				}
			case *ast.AssignStmt:
				for i, l := range x.Lhs {
					if !isFieldOf(l, "index", "seq") {
						continue
					}
					nW++
					// raise-only: `if id > idx.seq { idx.seq = id }`
					ok := false
					if ifs, isIf := parents[parents[x]].(*ast.IfStmt); isIf && len(x.Rhs) == len(x.Lhs) {
						if be, isBin := ast.Unparen(ifs.Cond).(*ast.BinaryExpr); isBin && be.Op == token.GTR && isFieldOf(be.Y, "index", "seq") &&
							types.ExprString(ast.Unparen(be.X)) == types.ExprString(ast.Unparen(x.Rhs[i])) {
							ok = true
						}
					}
					r.Check(ok, "R4", core.FuncName(fd)+" seq=", p.Pos(x.Pos()), "raise-only update", "seq is assigned outside the raise-only pattern `if id > seq { seq = id }`: a replayed or replicated entry can move the sequence backwards and ids are reused")
				}
			}
			return true
		})
	}
	r.Floor("C24/R4 writers of index.seq", nW, 3)
}
