package props

import (
	"go/ast"
	"go/token"
	"go/types"
	"strings"

	"verif/checker/core"
	"verif/checker/flow"
)

// c15SegmentCopyStaysInShard: R8. A fragment method that copies containers
// from another bitmap into <fragment>.storage at a key computed with `%` from
// the source key folds every source key into the row's 16 containers. That is
// only the identity on the keys of the fragment's own shard: on every path to
// such a Put the source key has been compared with an upper bound (`k >= X`
// leaving the loop, or `k < X` entering the branch) since it was last
// assigned.
func c15SegmentCopyStaysInShard(p *core.Program, r *core.Report) {
	pk := p.Pkg("")
	if pk == nil {
		r.Undecide("R8", "package pilosa", "", "not loaded")
		return
	}
	info := pk.TypesInfo
	n := 0
	for _, fd := range core.AllFuncDecls(pk) {
		if fd.Body == nil || core.RecvName(fd) != "fragment" || strings.HasSuffix(p.Fset.Position(fd.Pos()).Filename, "_test.go") {
			continue
		}
		// Put(<... k % ...>, _) on <fragment>.storage.Containers with k a local
		type site struct {
			call *ast.CallExpr
			key  types.Object
		}
		var sites []site
		ast.Inspect(fd.Body, func(m ast.Node) bool {
			c, ok := m.(*ast.CallExpr)
			if !ok || len(c.Args) != 2 {
				return true
			}
			fn := core.CalleeOf(info, c)
			if fn == nil || fn.Name() != "Put" || !recvNamed(fn, "Containers") {
				return true
			}
			sel, ok := ast.Unparen(c.Fun).(*ast.SelectorExpr)
			if !ok {
				return true
			}
			cs, ok := ast.Unparen(sel.X).(*ast.SelectorExpr)
			if !ok || !func() bool { _, ok := core.FieldSel(info, cs.X, core.ModPath, "fragment", "storage"); return ok }() {
				return true
			}
			ast.Inspect(c.Args[0], func(k ast.Node) bool {
				if be, ok := k.(*ast.BinaryExpr); ok && be.Op == token.REM {
					if id, ok := ast.Unparen(be.X).(*ast.Ident); ok {
						if v, ok := info.ObjectOf(id).(*types.Var); ok && !v.IsField() {
							sites = append(sites, site{c, v})
						}
					}
				}
				return true
			})
			return true
		})
		if len(sites) == 0 {
			continue
		}
		keys := map[types.Object]flow.State{}
		for _, s := range sites {
			if _, ok := keys[s.key]; !ok {
				keys[s.key] = flow.State(1) << uint(len(keys))
			}
		}
		n += len(sites)
		var bad []string
		h := flow.Hooks{Info: info}
		h.Atom = func(nd ast.Node, s flow.State) []flow.State {
			switch x := nd.(type) {
			case *ast.AssignStmt:
				for _, l := range x.Lhs {
					if id, ok := l.(*ast.Ident); ok {
						if b, ok := keys[info.ObjectOf(id)]; ok {
							s &^= b
						}
					}
				}
			case *ast.CallExpr:
				for _, st := range sites {
					if st.call == x && s&keys[st.key] == 0 {
						bad = append(bad, p.Pos(x.Pos()))
					}
				}
			}
			return []flow.State{s}
		}
		h.Refine = func(cond ast.Expr, taken bool, s flow.State) (flow.State, bool) {
			be, ok := ast.Unparen(cond).(*ast.BinaryExpr)
			if !ok {
				return s, true
			}
			id, ok := ast.Unparen(be.X).(*ast.Ident)
			if !ok {
				return s, true
			}
			b, ok := keys[info.ObjectOf(id)]
			if !ok {
				return s, true
			}
			switch be.Op {
			case token.GEQ, token.GTR:
				if !taken {
					s |= b
				}
			case token.LSS, token.LEQ:
				if taken {
					s |= b
				}
			}
			return s, true
		}
		it := flow.Run(h, fd.Body, 0)
		construct := core.FuncName(fd) + ": containers folded into the row come from this shard"
		switch {
		case it.Unsupported != "":
			r.Undecide("R8", construct, p.Pos(fd.Pos()), it.Unsupported)
		case len(bad) > 0:
			r.Violate("R8", construct, p.Pos(fd.Pos()), "a container is put into fragment storage at <source key> % 16 ("+strings.Join(dedupe(bad), ", ")+") on a path where the source key was not compared with the end of the shard: a segment that holds a container past its shard (the bit Shift carries out of the last column) overwrites container 0 of the row")
		default:
			r.HoldAt("R8", construct, p.Pos(fd.Pos()), "every folded Put follows an upper-bound test of the source key")
		}
	}
	r.Floor("C15/R8 folded container copies into fragment storage", n, 1)
}
