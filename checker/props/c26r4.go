package props

import (
	"go/ast"
	"go/types"
	"strings"

	"verif/checker/core"
)

// c26BufferUntouched: rule R4. String literals are decoded by the grammar's
// actions; anything done to the whole query text before the grammar sees it
// (replacing, trimming, case folding) also rewrites the inside of literals,
// and the value parsed is then not the value written.
func c26BufferUntouched(p *core.Program, r *core.Report) {
	pq := p.Pkg("pql")
	if pq == nil {
		r.Undecide("R4", "package pql", "", "not loaded")
		return
	}
	info := pq.TypesInfo
	n := 0
	check := func(fd *ast.FuncDecl, val ast.Expr, at ast.Node) {
		n++
		construct := core.FuncName(fd) + ": text handed to the grammar"
		var call string
		ast.Inspect(val, func(m ast.Node) bool {
			if c, ok := m.(*ast.CallExpr); ok {
				if tv, ok := info.Types[c.Fun]; ok && tv.IsType() {
					return true // a conversion
				}
				if call == "" {
					call = types.ExprString(c.Fun)
				}
			}
			return true
		})
		if call != "" {
			r.Violate("R4", construct, p.Pos(at.Pos()), "the query text is passed through "+call+" before it is parsed: the rewrite also applies inside string literals, so a literal containing the rewritten bytes parses to a different value than was written (and is stored and forwarded as such)")
		} else {
			r.HoldAt("R4", construct, p.Pos(at.Pos()), "the grammar's buffer is the input, converted to a string")
		}
	}
	isBuffer := func(e ast.Expr) bool {
		_, ok := core.FieldSel(info, e, core.ModPath+"/pql", "PQL", "Buffer")
		return ok
	}
	for _, fd := range core.AllFuncDecls(pq) {
		if fd.Body == nil || strings.HasSuffix(p.Fset.Position(fd.Pos()).Filename, "_test.go") || strings.HasSuffix(p.Fset.Position(fd.Pos()).Filename, ".peg.go") {
			continue
		}
		ast.Inspect(fd.Body, func(nd ast.Node) bool {
			switch x := nd.(type) {
			case *ast.CompositeLit:
				if t := info.TypeOf(x); t != nil && core.IsNamed(t, core.ModPath+"/pql", "PQL") {
					for _, el := range x.Elts {
						if kv, ok := el.(*ast.KeyValueExpr); ok {
							if id, ok := kv.Key.(*ast.Ident); ok && id.Name == "Buffer" {
								check(fd, kv.Value, kv)
							}
						}
					}
				}
			case *ast.AssignStmt:
				for i, l := range x.Lhs {
					if isBuffer(l) && i < len(x.Rhs) {
						check(fd, x.Rhs[i], x)
					}
				}
			}
			return true
		})
	}
	r.Floor("C26/R4 places that set the grammar's buffer", n, 1)
}
