package props

import (
	"go/ast"
	"go/types"
	"sort"
	"strings"

	"golang.org/x/tools/go/packages"

	"verif/checker/core"
	"verif/checker/flow"
)

// c27R7: path-sensitive decoder coverage. R3 asks that a decoder fills every
// field somewhere; R7 asks that it does so on every path that ends normally.
func c27R7(p *core.Program, r *core.Report, pp *packages.Package) {
	info := pp.TypesInfo
	pilosaStruct := func(t types.Type) bool {
		if t == nil {
			return false
		}
		n := core.NamedOf(t)
		if n == nil || n.Obj().Pkg() == nil || n.Obj().Pkg().Path() != core.ModPath {
			return false
		}
		_, ok := n.Underlying().(*types.Struct)
		return ok
	}
	// target(e): "m.F" when e is m.F, m.F[i], &m.F, *m.F... with m a variable of a pilosa struct type
	var target func(e ast.Expr) string
	target = func(e ast.Expr) string {
		switch x := ast.Unparen(e).(type) {
		case *ast.IndexExpr:
			return target(x.X)
		case *ast.UnaryExpr:
			return target(x.X)
		case *ast.StarExpr:
			return target(x.X)
		case *ast.SelectorExpr:
			s, ok := info.Selections[x]
			if !ok || s.Kind() != types.FieldVal || !pilosaStruct(s.Recv()) {
				return ""
			}
			if id, ok := ast.Unparen(x.X).(*ast.Ident); ok {
				if _, ok := info.ObjectOf(id).(*types.Var); ok {
					return id.Name + "." + x.Sel.Name
				}
			}
		}
		return ""
	}
	nDec, nRet := 0, 0
	for _, fd := range core.AllFuncDecls(pp) {
		if fd.Body == nil || fd.Recv != nil || !strings.HasPrefix(fd.Name.Name, "decode") {
			continue
		}
		params := map[types.Object]bool{}
		for _, fl := range fd.Type.Params.List {
			for _, nm := range fl.Names {
				params[info.ObjectOf(nm)] = true
			}
		}
		// fields filled anywhere in the function
		bit := map[string]flow.State{}
		var names []string
		note := func(k string) {
			if k == "" {
				return
			}
			if _, ok := bit[k]; !ok && len(names) < 60 {
				bit[k] = 1 << uint(len(names))
				names = append(names, k)
			}
		}
		fills := func(n ast.Node) []string {
			var out []string
			switch x := n.(type) {
			case *ast.AssignStmt:
				for _, l := range x.Lhs {
					if k := target(l); k != "" {
						out = append(out, k)
					}
				}
			case *ast.CallExpr:
				if fn := core.CalleeOf(info, x); fn != nil && fn.Pkg() == pp.Types && strings.HasPrefix(fn.Name(), "decode") {
					for _, a := range x.Args {
						if k := target(a); k != "" {
							out = append(out, k)
						}
					}
				}
			}
			return out
		}
		ast.Inspect(fd.Body, func(n ast.Node) bool {
			for _, k := range fills(n) {
				note(k)
			}
			return true
		})
		if len(names) < 2 {
			continue
		}
		nDec++
		var all flow.State
		for _, b := range bit {
			all |= b
		}
		const exempt = flow.State(1) << 63
		// wire fields mentioned by a condition: pb.F with pb a parameter
		condFields := func(c ast.Expr) (fields map[string]bool, nilGuard bool) {
			fields = map[string]bool{}
			ast.Inspect(c, func(n ast.Node) bool {
				switch x := n.(type) {
				case *ast.SelectorExpr:
					if s, ok := info.Selections[x]; ok && s.Kind() == types.FieldVal {
						fields[x.Sel.Name] = true
					}
				case *ast.BinaryExpr:
					if id, ok := ast.Unparen(x.X).(*ast.Ident); ok && params[info.ObjectOf(id)] {
						if y, ok := ast.Unparen(x.Y).(*ast.Ident); ok && y.Name == "nil" {
							nilGuard = true
						}
					}
				}
				return true
			})
			return
		}
		type miss struct {
			pos    string
			fields []string
		}
		var misses []miss
		h := flow.Hooks{Info: info}
		h.Atom = func(n ast.Node, s flow.State) []flow.State {
			for _, k := range fills(n) {
				s |= bit[k]
			}
			return []flow.State{s}
		}
		h.Refine = func(c ast.Expr, taken bool, s flow.State) (flow.State, bool) {
			fs, ng := condFields(c)
			if ng {
				return s | exempt, true
			}
			// a condition on wire field F alone decides how F is filled: both outcomes count as deciding F
			if len(fs) == 1 {
				for f := range fs {
					for _, k := range names {
						fld := k[strings.Index(k, ".")+1:]
						if fld == f || c27Renames[fld] == f {
							s |= bit[k]
						}
						for rk, rv := range c27Renames {
							if rv == f && strings.HasSuffix(rk, "."+fld) {
								s |= bit[k]
							}
						}
					}
				}
			}
			return s, true
		}
		h.RangeAtLeastOnce = func(*ast.RangeStmt) bool { return true }
		lastIsErr := false
		if res := fd.Type.Results; res != nil && len(res.List) > 0 {
			lastIsErr = flow.IsErrorType(info.TypeOf(res.List[len(res.List)-1].Type))
		}
		h.Return = func(ret *ast.ReturnStmt, s flow.State) {
			nRet++
			if s&exempt != 0 {
				return
			}
			pos := p.Pos(fd.End())
			if ret != nil {
				pos = p.Pos(ret.Pos())
				if lastIsErr && len(ret.Results) > 0 {
					last := ast.Unparen(ret.Results[len(ret.Results)-1])
					normal := false
					if id, ok := last.(*ast.Ident); ok && id.Name == "nil" {
						normal = true
					}
					if c, ok := last.(*ast.CallExpr); ok {
						if fn := core.CalleeOf(info, c); fn != nil && fn.Pkg() == pp.Types && strings.HasPrefix(fn.Name(), "decode") {
							normal = true
							for _, k := range fills(c) {
								s |= bit[k]
							}
						}
					}
					if !normal {
						return
					}
				}
			}
			if m := all &^ s; m != 0 {
				var fs []string
				for _, k := range names {
					if m&bit[k] != 0 {
						fs = append(fs, k)
					}
				}
				sort.Strings(fs)
				misses = append(misses, miss{pos, fs})
			}
		}
		it := flow.Run(h, fd.Body, 0)
		construct := fd.Name.Name + ": every normal return fills all decoded fields"
		switch {
		case it.Unsupported != "":
			r.Undecide("R7", construct, p.Pos(fd.Pos()), it.Unsupported)
		case len(misses) > 0:
			sort.Slice(misses, func(i, j int) bool { return misses[i].pos < misses[j].pos })
			m := misses[0]
			r.Violate("R7", construct, m.pos, "a path returns without error here leaving "+strings.Join(m.fields, ", ")+" unfilled although other paths fill them from the wire message: what the sender encoded in those fields is dropped")
		default:
			r.HoldAt("R7", construct, p.Pos(fd.Pos()), "fields "+strings.Join(names, ", ")+" filled on every normally returning path")
		}
	}
	r.Floor("C27/R7 decoders with at least two filled fields", nDec, 10)
	_ = nRet
}
