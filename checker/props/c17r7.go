package props

import (
	"go/ast"
	"go/types"

	"verif/checker/core"
)

// c17FailoverRemapsTheFailedLeg: R7. executor.mapReduce maps the request's
// shards onto nodes once, then folds in the responses; when a leg fails it
// maps again onto the remaining owners. The second mapping runs while the
// other legs are still in flight, so it must cover exactly the failed leg's
// shards: inside the response loop every call of executor.mapper passes the
// `shards` field of a received mapResponse for its shards parameter, never
// the request's whole list (whose shards would be folded in twice while the
// shard counter lets others be dropped).
func c17FailoverRemapsTheFailedLeg(p *core.Program, r *core.Report) {
	pk := p.Pkg("")
	if pk == nil {
		r.Undecide("R7", "package pilosa", "", "not loaded")
		return
	}
	info := pk.TypesInfo
	fd := core.FuncDecl(pk, "executor", "mapReduce")
	if fd == nil || fd.Body == nil {
		r.Undecide("R7", "(*executor).mapReduce", "", "not found")
		return
	}
	nIn, nOut := 0, 0
	var visit func(n ast.Node, inLoop bool)
	visit = func(n ast.Node, inLoop bool) {
		ast.Inspect(n, func(m ast.Node) bool {
			switch x := m.(type) {
			case *ast.ForStmt:
				if !inLoop {
					visit(x.Body, true)
					return false
				}
			case *ast.RangeStmt:
				if !inLoop {
					visit(x.Body, true)
					return false
				}
			case *ast.CallExpr:
				fn := core.CalleeOf(info, x)
				if fn == nil || fn.Name() != "mapper" || !recvNamed(fn, "executor") {
					return true
				}
				sig := fn.Type().(*types.Signature)
				idx := -1
				for i := 0; i < sig.Params().Len(); i++ {
					if sig.Params().At(i).Name() == "shards" {
						idx = i
					}
				}
				construct := "(*executor).mapReduce: mapper call at " + p.Pos(x.Pos())
				if idx < 0 || idx >= len(x.Args) {
					r.Undecide("R7", construct, p.Pos(x.Pos()), "mapper has no parameter named shards")
					return true
				}
				if !inLoop {
					nOut++
					return true
				}
				nIn++
				isRespShards := func(e ast.Expr) bool {
					sel, isSel := ast.Unparen(e).(*ast.SelectorExpr)
					if !isSel || sel.Sel.Name != "shards" {
						return false
					}
					nmd := core.NamedOf(info.TypeOf(sel.X))
					return nmd != nil && nmd.Obj().Name() == "mapResponse"
				}
				ok := isRespShards(x.Args[idx])
				if id, isID := ast.Unparen(x.Args[idx]).(*ast.Ident); isID && !ok {
					// a local whose every assignment is <response>.shards
					o := info.ObjectOf(id)
					nAs, all := 0, true
					ast.Inspect(fd.Body, func(k ast.Node) bool {
						as, isAs := k.(*ast.AssignStmt)
						if !isAs || len(as.Lhs) != len(as.Rhs) {
							return true
						}
						for i, l := range as.Lhs {
							if lid, isL := l.(*ast.Ident); isL && info.ObjectOf(lid) == o {
								nAs++
								if !isRespShards(as.Rhs[i]) {
									all = false
								}
							}
						}
						return true
					})
					ok = nAs > 0 && all
				}
				r.Check(ok, "R7", "(*executor).mapReduce: fail-over maps the failed leg's shards", p.Pos(x.Pos()),
					"the re-mapping inside the response loop passes <response>.shards",
					"inside the response loop executor.mapper is given "+types.ExprString(x.Args[idx])+" for its shards instead of the failed response's own shards: the legs still in flight answer for the same shards again, the reduce folds them in twice and stops counting before other shards arrive")
			}
			return true
		})
	}
	visit(fd.Body, false)
	r.Floor("C17/R7 mapper calls inside mapReduce's response loop", nIn, 1)
	r.Floor("C17/R7 initial mapper call", nOut, 1)
}
