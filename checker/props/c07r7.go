package props

import (
	"go/ast"
	"go/types"
	"strings"

	"verif/checker/core"
	"verif/checker/flow"
)

// c07ChangedMeansBits: rule R7. Clears leave empty containers behind, so the
// presence of a container says nothing about the presence of a bit. A
// fragment method that reports "changed" because it found and removed a
// container must have looked at the container's cardinality.
func c07ChangedMeansBits(p *core.Program, r *core.Report) {
	pk := p.Pkg("")
	if pk == nil {
		return
	}
	info := pk.TypesInfo
	n := 0
	for _, fd := range core.AllFuncDecls(pk) {
		if fd.Body == nil || core.RecvName(fd) != "fragment" || strings.HasSuffix(p.Fset.Position(fd.Pos()).Filename, "_test.go") {
			continue
		}
		// a named bool result called changed, and containers fetched with Containers.Get
		var changedObj types.Object
		if fd.Type.Results != nil {
			for _, fl := range fd.Type.Results.List {
				for _, nm := range fl.Names {
					if nm.Name == "changed" {
						changedObj = info.Defs[nm]
					}
				}
			}
		}
		if changedObj == nil {
			continue
		}
		conts := map[types.Object]bool{}
		ast.Inspect(fd.Body, func(m ast.Node) bool {
			as, ok := m.(*ast.AssignStmt)
			if !ok || len(as.Rhs) != 1 || len(as.Lhs) != 1 {
				return true
			}
			if c, ok := ast.Unparen(as.Rhs[0]).(*ast.CallExpr); ok {
				if g := core.CalleeOf(info, c); g != nil && g.Name() == "Get" {
					if sig, ok := g.Type().(*types.Signature); ok && sig.Recv() != nil && core.NamedOf(sig.Recv().Type()) != nil && core.NamedOf(sig.Recv().Type()).Obj().Name() == "Containers" {
						if id, ok := as.Lhs[0].(*ast.Ident); ok {
							conts[info.ObjectOf(id)] = true
						}
					}
				}
			}
			return true
		})
		if len(conts) == 0 {
			continue
		}
		n++
		const (
			bHave flow.State = 1 << iota // a container was found (non-nil)
			bCounted                     // its cardinality was tested
		)
		var bad []string
		isCont := func(e ast.Expr) bool {
			id, ok := ast.Unparen(e).(*ast.Ident)
			return ok && conts[info.ObjectOf(id)]
		}
		h := flow.Hooks{Info: info}
		h.Refine = func(c ast.Expr, taken bool, s flow.State) (flow.State, bool) {
			counted, nilTest := false, false
			ast.Inspect(c, func(m ast.Node) bool {
				switch x := m.(type) {
				case *ast.CallExpr:
					if sel, ok := ast.Unparen(x.Fun).(*ast.SelectorExpr); ok && sel.Sel.Name == "N" && isCont(sel.X) {
						counted = true
					}
				case *ast.BinaryExpr:
					if isCont(x.X) || isCont(x.Y) {
						nilTest = true
					}
				}
				return true
			})
			if counted {
				s |= bCounted
			}
			if nilTest {
				s |= bHave
			}
			return s, true
		}
		h.Atom = func(m ast.Node, s flow.State) []flow.State {
			as, ok := m.(*ast.AssignStmt)
			if !ok {
				return []flow.State{s}
			}
			for i, l := range as.Lhs {
				if id, ok := ast.Unparen(l).(*ast.Ident); ok {
					o := info.ObjectOf(id)
					if conts[o] {
						s &^= bHave | bCounted // a new container is looked at
					}
					if o == changedObj && i < len(as.Rhs) {
						if v, ok := ast.Unparen(as.Rhs[i]).(*ast.Ident); ok && v.Name == "true" && s&bHave != 0 && s&bCounted == 0 {
							bad = append(bad, p.Pos(as.Pos()))
						}
					}
				}
			}
			return []flow.State{s}
		}
		it := flow.Run(h, fd.Body, 0)
		construct := core.FuncName(fd) + ": changed is reported for bits, not for containers"
		switch {
		case it.Unsupported != "":
			r.Undecide("R7", construct, p.Pos(fd.Pos()), it.Unsupported)
		case len(bad) > 0:
			r.Violate("R7", construct, p.Pos(fd.Pos()), "sets changed = true at "+strings.Join(dedupe(bad), ", ")+" because a container exists, without having tested its cardinality: a clear that left an empty container behind makes the next clear of the same row report a change although no bit was removed")
		default:
			r.HoldAt("R7", construct, p.Pos(fd.Pos()), "changed is set only after the container's N() was tested")
		}
	}
	r.Floor("C07/R7 fragment methods reporting changed from fetched containers", n, 1)
}
