package props

import (
	"go/ast"
	"go/token"
	"go/types"
	"strings"

	"verif/checker/core"
	"verif/checker/flow"

	"golang.org/x/tools/go/packages"
)

// c31Defaults extracts the values NewConfig assigns: Go field path -> value.
func c31Defaults(srv *packages.Package) map[string]string {
	out := map[string]string{}
	fd := core.FuncDecl(srv, "", "NewConfig")
	if fd == nil {
		return out
	}
	info := srv.TypesInfo
	val := func(e ast.Expr) string {
		if ce, ok := ast.Unparen(e).(*ast.CallExpr); ok && len(ce.Args) == 1 {
			if t, ok := info.Types[ce.Fun]; ok && t.IsType() {
				e = ce.Args[0]
			}
		}
		return constString(info, e)
	}
	ast.Inspect(fd.Body, func(n ast.Node) bool {
		switch x := n.(type) {
		case *ast.CompositeLit:
			if core.IsNamed(info.TypeOf(x), core.ModPath+"/server", "Config") {
				for _, el := range x.Elts {
					if kv, ok := el.(*ast.KeyValueExpr); ok {
						if id, ok := kv.Key.(*ast.Ident); ok {
							out[id.Name] = val(kv.Value)
						}
					}
				}
			}
		case *ast.AssignStmt:
			if len(x.Lhs) == 1 && len(x.Rhs) == 1 {
				// c.A.B = v
				var parts []string
				cur := ast.Unparen(x.Lhs[0])
				for {
					sel, ok := cur.(*ast.SelectorExpr)
					if !ok {
						break
					}
					parts = append([]string{sel.Sel.Name}, parts...)
					cur = ast.Unparen(sel.X)
				}
				if len(parts) > 0 {
					out[strings.Join(parts, ".")] = val(x.Rhs[0])
				}
			}
		}
		return true
	})
	return out
}

func c31Skeleton(p *core.Program, r *core.Report, cmd *packages.Package) {
	info := cmd.TypesInfo
	fd := core.FuncDecl(cmd, "", "setAllConfig")
	if fd == nil {
		r.Undecide("R3", "cmd.setAllConfig", "", "not found")
		return
	}
	// top-level order of the viper calls
	posOf := map[string]token.Pos{}
	var setLit *ast.FuncLit
	ast.Inspect(fd.Body, func(n ast.Node) bool {
		c, ok := n.(*ast.CallExpr)
		if !ok {
			return true
		}
		fn := core.CalleeOf(info, c)
		if fn == nil {
			return true
		}
		switch fn.Name() {
		case "BindPFlags", "AutomaticEnv", "ReadInConfig", "SetEnvPrefix":
			posOf[fn.Name()] = c.Pos()
		case "VisitAll":
			if len(c.Args) == 1 {
				if fl, ok := c.Args[0].(*ast.FuncLit); ok {
					sets := false
					ast.Inspect(fl.Body, func(m ast.Node) bool {
						if cc, ok := m.(*ast.CallExpr); ok {
							if f2 := core.CalleeOf(info, cc); f2 != nil && f2.Name() == "Set" {
								sets = true
							}
						}
						return true
					})
					if sets {
						setLit = fl
						posOf["VisitAll(set)"] = c.Pos()
					}
				}
			}
		}
		return true
	})
	need := []string{"BindPFlags", "AutomaticEnv", "ReadInConfig", "VisitAll(set)"}
	for _, k := range need {
		if !posOf[k].IsValid() {
			r.Violate("R3", "setAllConfig "+k, p.Pos(fd.Pos()), "setAllConfig no longer calls "+k+": that source is not consulted at all")
			return
		}
	}
	r.Check(posOf["BindPFlags"] < posOf["VisitAll(set)"] && posOf["AutomaticEnv"] < posOf["VisitAll(set)"] && posOf["ReadInConfig"] < posOf["VisitAll(set)"],
		"R3", "setAllConfig source order", p.Pos(fd.Pos()), "flags bound, environment enabled and file read before values are applied",
		"values are applied to the flags before every source (flag binding, environment, configuration file) has been registered with viper: a later source is ignored")
	// ReadInConfig is conditional on a non-empty path
	parents := parentMap(fd.Body)
	cond := false
	var at ast.Node
	ast.Inspect(fd.Body, func(n ast.Node) bool {
		if c, ok := n.(*ast.CallExpr); ok && c.Pos() == posOf["ReadInConfig"] {
			at = c
		}
		return true
	})
	for q := parents[at]; q != nil; q = parents[q] {
		if ifs, ok := q.(*ast.IfStmt); ok {
			if be, ok := ast.Unparen(ifs.Cond).(*ast.BinaryExpr); ok && be.Op == token.NEQ {
				if bl, ok := ast.Unparen(be.Y).(*ast.BasicLit); ok && bl.Value == `""` {
					cond = true
				}
			}
		}
	}
	r.Check(cond, "R3", "setAllConfig file is optional", p.Pos(posOf["ReadInConfig"]), "ReadInConfig runs only when a configuration path is given", "the configuration file is read unconditionally: starting without --config fails or picks up a stray file")
	// flag wins: Set not reached when f.Changed
	const changed flow.State = 1
	var fobj types.Object
	if setLit.Type.Params.NumFields() == 1 && len(setLit.Type.Params.List[0].Names) == 1 {
		fobj = info.ObjectOf(setLit.Type.Params.List[0].Names[0])
	}
	bad := token.NoPos
	usesSlice := false
	h := flow.Hooks{Info: info}
	h.Atom = func(n ast.Node, s flow.State) []flow.State {
		if c, ok := n.(*ast.CallExpr); ok {
			if fn := core.CalleeOf(info, c); fn != nil {
				if fn.Name() == "Set" && s&changed != 0 {
					bad = c.Pos()
				}
				if fn.Name() == "GetStringSlice" {
					usesSlice = true
				}
			}
		}
		return []flow.State{s}
	}
	h.Refine = func(c ast.Expr, taken bool, s flow.State) (flow.State, bool) {
		if sel, ok := ast.Unparen(c).(*ast.SelectorExpr); ok && sel.Sel.Name == "Changed" {
			if id, ok := ast.Unparen(sel.X).(*ast.Ident); ok && info.ObjectOf(id) == fobj {
				if taken {
					return s | changed, true
				}
				return s, true
			}
		}
		return s, true
	}
	// the literal must test f.Changed at all
	tests := false
	ast.Inspect(setLit.Body, func(n ast.Node) bool {
		if sel, ok := n.(*ast.SelectorExpr); ok && sel.Sel.Name == "Changed" {
			tests = true
		}
		return true
	})
	flow.Run(h, setLit.Body, 0)
	r.Check(tests && !bad.IsValid(), "R3", "setAllConfig flag wins", p.Pos(setLit.Pos()), "a flag set on the command line (f.Changed) is never overwritten from viper", "a value from the environment or the configuration file is written over a flag the user set on the command line (f.Value.Set is reachable when f.Changed)")
	r.Check(usesSlice, "R3", "setAllConfig string slices", p.Pos(setLit.Pos()), "string-slice options are read with GetStringSlice", "string-slice options are read with GetString only: a list from the configuration file reads as empty")
}
