package props

import (
	"go/ast"
	"go/token"
	"go/types"
	"strings"

	"verif/checker/core"
)

// c25SkipOnlyIdentical: rule R6. SetAttrs skips the write when the stored
// map already contains what it is given. An attribute's type is part of its
// value (int64 3 and float64 3.0 are different attributes, R2), so the
// "already contains" test must be interface equality: a predicate that
// converts, asserts or switches on types before comparing treats different
// attributes as the same and drops the write.
func c25SkipOnlyIdentical(p *core.Program, r *core.Report) {
	bp := p.Pkg("boltdb")
	if bp == nil {
		r.Undecide("R6", "package boltdb", "", "not loaded")
		return
	}
	info := bp.TypesInfo
	decls := map[*types.Func]*ast.FuncDecl{}
	for _, fd := range core.AllFuncDecls(bp) {
		if fd.Body == nil || strings.HasSuffix(p.Fset.Position(fd.Pos()).Filename, "_test.go") {
			continue
		}
		if fn, ok := info.Defs[fd.Name].(*types.Func); ok {
			decls[fn] = fd
		}
	}
	// predicates that guard a write-skipping early return in attrStore write methods:
	// calls inside the condition of an if whose body returns, in SetAttrs/SetBulkAttrs
	preds := map[*types.Func]token.Pos{}
	for _, fd := range decls {
		if core.RecvName(fd) != "attrStore" || !strings.HasPrefix(fd.Name.Name, "Set") {
			continue
		}
		ast.Inspect(fd.Body, func(n ast.Node) bool {
			ifs, ok := n.(*ast.IfStmt)
			if !ok {
				return true
			}
			returns := false
			for _, st := range ifs.Body.List {
				if _, ok := st.(*ast.ReturnStmt); ok {
					returns = true
				}
			}
			if !returns {
				return true
			}
			ast.Inspect(ifs.Cond, func(m ast.Node) bool {
				if c, ok := m.(*ast.CallExpr); ok {
					if g := core.CalleeOf(info, c); g != nil && decls[g] != nil {
						// takes two attribute maps
						sig := g.Type().(*types.Signature)
						maps := 0
						for i := 0; i < sig.Params().Len(); i++ {
							if _, ok := sig.Params().At(i).Type().Underlying().(*types.Map); ok {
								maps++
							}
						}
						if maps >= 2 {
							preds[g] = c.Pos()
						}
					}
				}
				return true
			})
			return true
		})
	}
	n := 0
	for g, at := range preds {
		n++
		construct := core.FuncKey(g) + ": the write is skipped only for identical attributes"
		// the predicate and everything it calls inside the package
		seen := map[*types.Func]bool{}
		var why string
		var visit func(f *types.Func)
		visit = func(f *types.Func) {
			fd := decls[f]
			if fd == nil || seen[f] || why != "" {
				return
			}
			seen[f] = true
			ast.Inspect(fd.Body, func(m ast.Node) bool {
				if why != "" {
					return false
				}
				switch x := m.(type) {
				case *ast.TypeSwitchStmt:
					why = "a type switch at " + p.Pos(x.Pos())
				case *ast.TypeAssertExpr:
					why = "a type assertion at " + p.Pos(x.Pos())
				case *ast.CallExpr:
					if tv, ok := info.Types[x.Fun]; ok && tv.IsType() {
						if _, isBasic := tv.Type.Underlying().(*types.Basic); isBasic {
							why = "a conversion to " + tv.Type.String() + " at " + p.Pos(x.Pos())
						}
					} else if c := core.CalleeOf(info, x); c != nil {
						if decls[c] != nil {
							visit(c)
						} else if c.Pkg() != nil && c.Pkg().Path() == "reflect" && c.Name() != "DeepEqual" { // DeepEqual distinguishes types like == does
							why = "reflection at " + p.Pos(x.Pos())
						}
					}
				}
				return true
			})
		}
		visit(g)
		if why != "" {
			r.Violate("R6", construct, p.Pos(at), "the predicate that lets SetAttrs skip the write does more than compare the interface values ("+why+"): values of different attribute types that it deems equal are not rewritten, so the last written value -- its type, and beyond 2^53 its digits -- is lost")
		} else {
			r.HoldAt("R6", construct, p.Pos(at), "plain interface comparison (type and value)")
		}
	}
	r.Floor("C25/R6 write-skipping predicates over two attribute maps", n, 1)
}
