package props

import (
	"go/ast"
	"go/types"
	"sort"
	"strings"

	"verif/checker/core"
	"verif/checker/flow"

	"golang.org/x/tools/go/packages"
)

func init() { register("C25", c25) }

// attrValueTypes returns the non-nil case types of the first type switch in fd.
func attrValueTypes(info *types.Info, fd *ast.FuncDecl) map[string]bool {
	out := map[string]bool{}
	cases, _, _ := typeSwitchCases(info, fd)
	for t := range cases {
		if t != "nil" {
			out[t] = true
		}
	}
	return out
}

func c25(p *core.Program, r *core.Report) {
	r.Rule("R1", "no internal map escapes: every attribute map an AttrStore method returns is freshly allocated on that path (a copy loop or a constructor/decoder result) — never a map that was also stored into the attribute cache, and never a package-level map (the shared empty map)")
	r.Rule("R2", "attribute type tables agree: the value types txUpdateAttrs stores (after coercing int/uint/uint64 to int64) are exactly the types pilosa.encodeAttr and encoding/proto.encodeAttr can encode (both also accept uint64), and each decoder has one case per attribute type constant")
	r.Rule("R6", "the write is skipped only for identical attributes: a predicate over two attribute maps that guards an early return in an attrStore Set* method (mapContains) and everything it calls in package boltdb contains no type switch, type assertion, basic-type conversion or reflection: it compares interface values")
	c25SkipOnlyIdentical(p, r)
	r.Rule("R7", "no caller map is retained: a function of package boltdb that takes an attribute map and returns one never returns a variable that may alias the parameter")
	c25CallerMapNotRetained(p, r)
	r.Rule("R4", "block bounds agree: attrStore.Blocks and attrStore.BlockData segment ids by the same constant (attrBlockSize) with the same half-open convention")
	r.Rule("R5", "a null reaches the store: outside the attribute store itself, every loop that copies one attribute map into another (range over a map[string]interface{} storing dst[key] = value) stores every entry, whatever its value -- a nil value is the instruction to delete the key and must arrive at SetAttrs/SetBulkAttrs, not be dropped or applied to the pending batch")
	c25NullReachesStore(p, r)
	r.NotDecided = "bolt persistence, checksum equality 'exactly when' (hash semantics), merge semantics of SetBulkAttrs for all histories"
	bp := p.Pkg("boltdb")
	pk := p.Pkg("")
	pp := p.Pkg("encoding/proto")
	if bp == nil || pk == nil || pp == nil {
		r.Undecide("R1", "packages", "", "boltdb / pilosa / encoding/proto not loaded")
		return
	}
	c25Escapes(p, r, bp)

	// ---- R2
	stored := map[string]bool{}
	if fd := core.FuncDecl(bp, "", "txUpdateAttrs"); fd != nil {
		// types assigned as-is: the clause `case string, int64, bool, float64: attr[k] = v`, plus coercion targets
		info := bp.TypesInfo
		ast.Inspect(fd.Body, func(n ast.Node) bool {
			cc, ok := n.(*ast.CaseClause)
			if !ok || cc.List == nil {
				return true
			}
			for _, st := range cc.Body {
				as, ok := st.(*ast.AssignStmt)
				if !ok || len(as.Rhs) != 1 {
					continue
				}
				if c, ok := ast.Unparen(as.Rhs[0]).(*ast.CallExpr); ok {
					if tv, ok := info.Types[c.Fun]; ok && tv.IsType() {
						stored[typeKey(tv.Type)] = true // coerced
						continue
					}
				}
				for _, e := range cc.List {
					if t := info.TypeOf(e); t != nil {
						stored[typeKey(t)] = true
					}
				}
			}
			return true
		})
	} else {
		r.Undecide("R2", "boltdb.txUpdateAttrs", "", "not found")
	}
	r.Floor("C25/R2 stored attribute value types", len(stored), 4)
	check := func(pkgName string, q *packages.Package) {
		enc := core.FuncDecl(q, "", "encodeAttr")
		dec := core.FuncDecl(q, "", "decodeAttr")
		if enc == nil || dec == nil {
			r.Undecide("R2", pkgName+" encodeAttr/decodeAttr", "", "not found")
			return
		}
		et := attrValueTypes(q.TypesInfo, enc)
		var missing []string
		for t := range stored {
			if !et[t] {
				missing = append(missing, t)
			}
		}
		sort.Strings(missing)
		r.Check(len(missing) == 0, "R2", pkgName+".encodeAttr", p.Pos(enc.Pos()), "encodes every stored value type", "cannot encode stored attribute value type(s) "+strings.Join(missing, ", ")+": such attributes are written with no type and read back as nil")
		var extra []string
		for t := range et {
			if !stored[t] && t != "uint64" {
				extra = append(extra, t)
			}
		}
		r.Check(len(extra) == 0, "R2", pkgName+".encodeAttr extra", p.Pos(enc.Pos()), "encodes no type the store cannot hold", "encodes type(s) "+strings.Join(extra, ", ")+" that the store never holds")
		// decoder cases: attrType constants
		consts := map[string]bool{}
		for _, name := range q.Types.Scope().Names() {
			if strings.HasPrefix(name, "attrType") {
				consts[name] = true
			}
		}
		got := map[string]bool{}
		ast.Inspect(dec.Body, func(n ast.Node) bool {
			if cc, ok := n.(*ast.CaseClause); ok {
				for _, e := range cc.List {
					if id, ok := ast.Unparen(e).(*ast.Ident); ok && consts[id.Name] {
						got[id.Name] = true
					}
				}
			}
			return true
		})
		var miss []string
		for c := range consts {
			if !got[c] {
				miss = append(miss, c)
			}
		}
		r.Check(len(miss) == 0 && len(consts) >= 4, "R2", pkgName+".decodeAttr", p.Pos(dec.Pos()), "one case per attribute type constant", "no decoder case for "+strings.Join(miss, ", ")+": attributes of that type decode to nil")
		// encoder sets a type constant in every case
		nSet := 0
		ast.Inspect(enc.Body, func(n ast.Node) bool {
			if as, ok := n.(*ast.AssignStmt); ok && len(as.Lhs) == 1 && len(as.Rhs) == 1 {
				if sel, ok := ast.Unparen(as.Lhs[0]).(*ast.SelectorExpr); ok && sel.Sel.Name == "Type" {
					if id, ok := ast.Unparen(as.Rhs[0]).(*ast.Ident); ok && consts[id.Name] {
						nSet++
					}
				}
			}
			return true
		})
		r.Check(nSet >= len(et), "R2", pkgName+".encodeAttr tags", p.Pos(enc.Pos()), "every encoder case sets its type constant", "an encoder case does not set the attribute type: the decoder cannot tell what was stored")
	}
	check("pilosa", pk)
	check("proto", pp)

	// ---- R4
	nUses := 0
	for _, name := range []string{"Blocks", "BlockData"} {
		fd := core.FuncDecl(bp, "attrStore", name)
		if fd == nil {
			r.Undecide("R4", "(*attrStore)."+name, "", "not found")
			continue
		}
		uses := false
		ast.Inspect(fd.Body, func(n ast.Node) bool {
			if id, ok := n.(*ast.Ident); ok && id.Name == "attrBlockSize" {
				uses = true
			}
			return true
		})
		// Blocks may delegate to a cursor type in the same file
		if !uses {
			for _, fd2 := range core.AllFuncDecls(bp) {
				if fd2.Body != nil && strings.Contains(strings.ToLower(core.RecvName(fd2)), "block") {
					ast.Inspect(fd2.Body, func(n ast.Node) bool {
						if id, ok := n.(*ast.Ident); ok && id.Name == "attrBlockSize" {
							uses = true
						}
						return true
					})
				}
			}
		}
		if uses {
			nUses++
		}
		r.Check(uses, "R4", "(*attrStore)."+name, p.Pos(fd.Pos()), "segments ids by attrBlockSize", "does not segment ids by the shared block size constant: Blocks and BlockData disagree on which ids a block holds")
	}
}

// c25Escapes: R1.
func c25Escapes(p *core.Program, r *core.Report, bp *packages.Package) {
	info := bp.TypesInfo
	isAttrMap := func(t types.Type) bool {
		m, ok := t.Underlying().(*types.Map)
		if !ok {
			return false
		}
		k, ok := m.Key().Underlying().(*types.Basic)
		if !ok || k.Kind() != types.String {
			return false
		}
		_, isIface := m.Elem().Underlying().(*types.Interface)
		return isIface
	}
	// package-level map variables, and functions that may return one
	globals := map[types.Object]bool{}
	for _, name := range bp.Types.Scope().Names() {
		if v, ok := bp.Types.Scope().Lookup(name).(*types.Var); ok && isAttrMap(v.Type()) {
			globals[v] = true
		}
	}
	mayReturnGlobal := map[*types.Func]bool{}
	for _, fd := range core.AllFuncDecls(bp) {
		if fd.Body == nil {
			continue
		}
		obj, _ := info.Defs[fd.Name].(*types.Func)
		ast.Inspect(fd.Body, func(n ast.Node) bool {
			if ret, ok := n.(*ast.ReturnStmt); ok {
				for _, e := range ret.Results {
					if id, ok := ast.Unparen(e).(*ast.Ident); ok && globals[info.ObjectOf(id)] {
						mayReturnGlobal[obj] = true
					}
				}
			}
			return true
		})
	}
	n := 0
	for _, fd := range core.AllFuncDecls(bp) {
		if fd.Body == nil || core.RecvName(fd) != "attrStore" || !fd.Name.IsExported() {
			continue
		}
		obj := info.Defs[fd.Name].(*types.Func)
		sig := obj.Type().(*types.Signature)
		returnsMap := false
		for i := 0; i < sig.Results().Len(); i++ {
			if isAttrMap(sig.Results().At(i).Type()) {
				returnsMap = true
			}
		}
		if !returnsMap {
			continue
		}
		n++
		// variables that alias the cache or a global
		tainted := map[types.Object]string{}
		ast.Inspect(fd.Body, func(nd ast.Node) bool {
			switch x := nd.(type) {
			case *ast.CallExpr:
				fn := core.CalleeOf(info, x)
				if fn != nil && fn.Name() == "Set" && recvNamed(fn, "attrCache") {
					for _, a := range x.Args {
						if id, ok := ast.Unparen(a).(*ast.Ident); ok && isAttrMap(info.TypeOf(id)) {
							tainted[info.ObjectOf(id)] = "it was stored into the attribute cache"
						}
					}
				}
			case *ast.AssignStmt:
				if len(x.Rhs) == 1 {
					if c, ok := ast.Unparen(x.Rhs[0]).(*ast.CallExpr); ok {
						if fn := core.CalleeOf(info, c); fn != nil && mayReturnGlobal[fn] {
							if id, ok := x.Lhs[0].(*ast.Ident); ok {
								tainted[info.ObjectOf(id)] = fn.Name() + " may return the package-level empty map"
							}
						}
					}
				}
			}
			return true
		})
		bad, why := ast.Node(nil), ""
		ast.Inspect(fd.Body, func(nd ast.Node) bool {
			if _, isLit := nd.(*ast.FuncLit); isLit {
				return false
			}
			ret, ok := nd.(*ast.ReturnStmt)
			if !ok {
				return true
			}
			for _, e := range ret.Results {
				if id, ok := ast.Unparen(e).(*ast.Ident); ok {
					if w, isT := tainted[info.ObjectOf(id)]; isT {
						// a return on the cache-hit path of a copying getter is fine: only flag when the
						// variable is returned after the tainting statement
						bad, why = ret, w
					}
					if globals[info.ObjectOf(id)] {
						bad, why = ret, "it is a package-level map"
					}
				}
			}
			return true
		})
		construct := "(*attrStore)." + fd.Name.Name
		if bad != nil {
			// the cache-hit return precedes the Set call; only returns after the taint count
			setPos := fd.End()
			ast.Inspect(fd.Body, func(nd ast.Node) bool {
				if c, ok := nd.(*ast.CallExpr); ok {
					if fn := core.CalleeOf(info, c); fn != nil && fn.Name() == "Set" && recvNamed(fn, "attrCache") && c.Pos() < setPos {
						setPos = c.Pos()
					}
				}
				return true
			})
			if bad.Pos() > setPos || strings.Contains(why, "package-level") {
				r.Violate("R1", construct, p.Pos(bad.Pos()), "returns a map that callers share with the store ("+why+"): a caller writing into it changes what later reads return")
				continue
			}
		}
		r.HoldAt("R1", construct, p.Pos(fd.Pos()), "returned maps are fresh copies")
	}
	r.Floor("C25/R1 AttrStore methods returning an attribute map", n, 1)
	// the cache getter copies
	if fd := core.FuncDecl(bp, "attrCache", "Get"); fd != nil {
		makes := false
		ast.Inspect(fd.Body, func(nd ast.Node) bool {
			if c, ok := nd.(*ast.CallExpr); ok && core.BuiltinName(info, c) == "make" {
				makes = true
			}
			return true
		})
		returnsField := false
		ast.Inspect(fd.Body, func(nd ast.Node) bool {
			if ret, ok := nd.(*ast.ReturnStmt); ok {
				for _, e := range ret.Results {
					if ix, ok := ast.Unparen(e).(*ast.IndexExpr); ok {
						if _, ok := core.FieldSel(info, ix.X, core.ModPath+"/boltdb", "attrCache", "attrs"); ok {
							returnsField = true
						}
					}
				}
			}
			return true
		})
		r.Check(makes && !returnsField, "R1", "(*attrCache).Get", p.Pos(fd.Pos()), "returns a copy of the cached map", "the cache getter returns the cached map itself")
	}
}

// c25NullReachesStore: R5.
func c25NullReachesStore(p *core.Program, r *core.Report) {
	pk := p.Pkg("")
	info := pk.TypesInfo
	isAttrMap := func(t types.Type) bool {
		m, ok := t.Underlying().(*types.Map)
		if !ok {
			return false
		}
		k, ok := m.Key().Underlying().(*types.Basic)
		if !ok || k.Kind() != types.String {
			return false
		}
		_, isIface := m.Elem().Underlying().(*types.Interface)
		return isIface
	}
	n := 0
	for _, fd := range core.AllFuncDecls(pk) {
		if fd.Body == nil || strings.HasSuffix(p.Fset.Position(fd.Pos()).Filename, "_test.go") {
			continue
		}
		ast.Inspect(fd.Body, func(nd ast.Node) bool {
			rs, ok := nd.(*ast.RangeStmt)
			if !ok || !isAttrMap(info.TypeOf(rs.X)) {
				return true
			}
			kid, ok1 := rs.Key.(*ast.Ident)
			vid, ok2 := rs.Value.(*ast.Ident)
			if !ok1 || !ok2 {
				return true
			}
			kObj, vObj := info.ObjectOf(kid), info.ObjectOf(vid)
			// does the body copy into another attribute map?
			isCopy := func(n ast.Node) bool {
				as, ok := n.(*ast.AssignStmt)
				if !ok || len(as.Lhs) != 1 || len(as.Rhs) != 1 {
					return false
				}
				ix, ok := ast.Unparen(as.Lhs[0]).(*ast.IndexExpr)
				if !ok || !isAttrMap(info.TypeOf(ix.X)) {
					return false
				}
				ki, ok := ast.Unparen(ix.Index).(*ast.Ident)
				if !ok || info.ObjectOf(ki) != kObj {
					return false
				}
				vi, ok := ast.Unparen(as.Rhs[0]).(*ast.Ident)
				return ok && info.ObjectOf(vi) == vObj
			}
			copies := false
			ast.Inspect(rs.Body, func(m ast.Node) bool {
				if m != nil && isCopy(m) {
					copies = true
				}
				return true
			})
			if !copies {
				return true
			}
			n++
			construct := core.FuncName(fd) + " copy of " + types.ExprString(rs.X)
			const bStored flow.State = 1
			var bad []string
			h := flow.Hooks{Info: info}
			h.Atom = func(m ast.Node, s flow.State) []flow.State {
				if isCopy(m) {
					return []flow.State{s | bStored}
				}
				return []flow.State{s}
			}
			h.Return = func(ret *ast.ReturnStmt, s flow.State) {
				if s&bStored == 0 {
					pos := rs.Body.End()
					if ret != nil {
						pos = ret.Pos()
					}
					bad = append(bad, p.Pos(pos))
				}
			}
			it := flow.Run(h, c13IterationBody(rs.Body), 0)
			switch {
			case it.Unsupported != "":
				r.Undecide("R5", construct, p.Pos(rs.Pos()), it.Unsupported)
			case len(bad) > 0:
				r.Violate("R5", construct, p.Pos(rs.Pos()), "an entry can leave the copy loop without being stored (iteration ends at "+strings.Join(dedupe(bad), ", ")+"): a null meant to delete a stored key never reaches the attribute store, so the old value survives (and the outcome depends on whether the calls were batched)")
			default:
				r.HoldAt("R5", construct, p.Pos(rs.Pos()), "every entry is stored")
			}
			return true
		})
	}
	r.Floor("C25/R5 attribute map copy loops", n, 2)
}
