package props

import (
	"fmt"
	"go/ast"
	"go/constant"
	"go/token"
	"go/types"
	"sort"
	"strings"

	"verif/checker/core"
)

// c18val is a value of the tiny constant folder below.
type c18val struct {
	s   string
	ss  []string
	i   int64
	b   bool
	typ byte // 's', 'l' (list), 'i', 'b'
}

// c18fold evaluates a straight-line string helper (assignments, if/return,
// strings.Split, len, indexing, integer arithmetic and comparisons) on
// constant arguments. ok=false: outside the subset.
type c18fold struct {
	info *types.Info
	env  map[types.Object]c18val
}

func (f *c18fold) expr(e ast.Expr) (c18val, bool) {
	if tv, ok := f.info.Types[e]; ok && tv.Value != nil {
		switch tv.Value.Kind() {
		case constant.String:
			return c18val{s: constant.StringVal(tv.Value), typ: 's'}, true
		case constant.Int:
			v, _ := constant.Int64Val(tv.Value)
			return c18val{i: v, typ: 'i'}, true
		case constant.Bool:
			return c18val{b: constant.BoolVal(tv.Value), typ: 'b'}, true
		}
	}
	switch x := ast.Unparen(e).(type) {
	case *ast.Ident:
		v, ok := f.env[f.info.ObjectOf(x)]
		return v, ok
	case *ast.CallExpr:
		if core.BuiltinName(f.info, x) == "len" && len(x.Args) == 1 {
			a, ok := f.expr(x.Args[0])
			if !ok {
				return c18val{}, false
			}
			switch a.typ {
			case 's':
				return c18val{i: int64(len(a.s)), typ: 'i'}, true
			case 'l':
				return c18val{i: int64(len(a.ss)), typ: 'i'}, true
			}
			return c18val{}, false
		}
		if fn := core.CalleeOf(f.info, x); fn != nil && fn.Pkg() != nil && fn.Pkg().Path() == "strings" && len(x.Args) == 2 {
			a, ok1 := f.expr(x.Args[0])
			b, ok2 := f.expr(x.Args[1])
			if !ok1 || !ok2 || a.typ != 's' || b.typ != 's' {
				return c18val{}, false
			}
			switch fn.Name() {
			case "Split":
				return c18val{ss: strings.Split(a.s, b.s), typ: 'l'}, true
			case "HasPrefix":
				return c18val{b: strings.HasPrefix(a.s, b.s), typ: 'b'}, true
			case "TrimPrefix":
				return c18val{s: strings.TrimPrefix(a.s, b.s), typ: 's'}, true
			case "LastIndex":
				return c18val{i: int64(strings.LastIndex(a.s, b.s)), typ: 'i'}, true
			case "Index":
				return c18val{i: int64(strings.Index(a.s, b.s)), typ: 'i'}, true
			}
		}
		return c18val{}, false
	case *ast.IndexExpr:
		a, ok1 := f.expr(x.X)
		i, ok2 := f.expr(x.Index)
		if !ok1 || !ok2 || i.typ != 'i' {
			return c18val{}, false
		}
		if a.typ == 'l' && i.i >= 0 && int(i.i) < len(a.ss) {
			return c18val{s: a.ss[i.i], typ: 's'}, true
		}
		return c18val{}, false
	case *ast.SliceExpr:
		a, ok := f.expr(x.X)
		if !ok || a.typ != 's' {
			return c18val{}, false
		}
		lo, hi := int64(0), int64(len(a.s))
		if x.Low != nil {
			v, ok := f.expr(x.Low)
			if !ok || v.typ != 'i' {
				return c18val{}, false
			}
			lo = v.i
		}
		if x.High != nil {
			v, ok := f.expr(x.High)
			if !ok || v.typ != 'i' {
				return c18val{}, false
			}
			hi = v.i
		}
		if lo < 0 || hi > int64(len(a.s)) || lo > hi {
			return c18val{}, false
		}
		return c18val{s: a.s[lo:hi], typ: 's'}, true
	case *ast.BinaryExpr:
		a, ok1 := f.expr(x.X)
		b, ok2 := f.expr(x.Y)
		if !ok1 || !ok2 || a.typ != b.typ {
			return c18val{}, false
		}
		switch a.typ {
		case 'i':
			switch x.Op {
			case token.ADD:
				return c18val{i: a.i + b.i, typ: 'i'}, true
			case token.SUB:
				return c18val{i: a.i - b.i, typ: 'i'}, true
			case token.LSS, token.LEQ, token.GTR, token.GEQ, token.EQL, token.NEQ:
				return c18val{b: cmpIntTok(a.i, x.Op, b.i), typ: 'b'}, true
			}
		case 's':
			switch x.Op {
			case token.ADD:
				return c18val{s: a.s + b.s, typ: 's'}, true
			case token.EQL:
				return c18val{b: a.s == b.s, typ: 'b'}, true
			case token.NEQ:
				return c18val{b: a.s != b.s, typ: 'b'}, true
			}
		case 'b':
			switch x.Op {
			case token.LAND:
				return c18val{b: a.b && b.b, typ: 'b'}, true
			case token.LOR:
				return c18val{b: a.b || b.b, typ: 'b'}, true
			}
		}
	}
	return c18val{}, false
}

func cmpIntTok(a int64, op token.Token, b int64) bool {
	switch op {
	case token.LSS:
		return a < b
	case token.LEQ:
		return a <= b
	case token.GTR:
		return a > b
	case token.GEQ:
		return a >= b
	case token.EQL:
		return a == b
	}
	return a != b
}

// run folds a statement list; returns the returned value.
func (f *c18fold) run(list []ast.Stmt) (ret c18val, returned, ok bool) {
	for _, st := range list {
		switch x := st.(type) {
		case *ast.AssignStmt:
			if len(x.Lhs) != len(x.Rhs) {
				return c18val{}, false, false
			}
			for i, l := range x.Lhs {
				id, isID := l.(*ast.Ident)
				v, vok := f.expr(x.Rhs[i])
				if !isID || !vok {
					return c18val{}, false, false
				}
				f.env[f.info.ObjectOf(id)] = v
			}
		case *ast.IfStmt:
			if x.Init != nil {
				if _, _, ok := f.run([]ast.Stmt{x.Init}); !ok {
					return c18val{}, false, false
				}
			}
			c, cok := f.expr(x.Cond)
			if !cok || c.typ != 'b' {
				return c18val{}, false, false
			}
			var body []ast.Stmt
			if c.b {
				body = x.Body.List
			} else if x.Else != nil {
				body = []ast.Stmt{x.Else}
			}
			if r, done, ok := f.run(body); !ok {
				return c18val{}, false, false
			} else if done {
				return r, true, true
			}
		case *ast.BlockStmt:
			if r, done, ok := f.run(x.List); !ok {
				return c18val{}, false, false
			} else if done {
				return r, true, true
			}
		case *ast.ReturnStmt:
			if len(x.Results) != 1 {
				return c18val{}, false, false
			}
			v, vok := f.expr(x.Results[0])
			return v, true, vok
		default:
			return c18val{}, false, false
		}
	}
	return c18val{}, false, true
}

// c18TimePartOfPlainViews: rule R3.
func c18TimePartOfPlainViews(p *core.Program, r *core.Report) {
	pk := p.Pkg("")
	if pk == nil {
		return
	}
	info := pk.TypesInfo
	construct := "viewTimePart on view names without a time stamp"
	var vtp *ast.FuncDecl
	for _, fd := range core.AllFuncDecls(pk) {
		if fd.Recv == nil && fd.Name.Name == "viewTimePart" && fd.Body != nil {
			vtp = fd
		}
	}
	if vtp == nil || vtp.Type.Params.NumFields() != 1 || len(vtp.Type.Params.List[0].Names) != 1 {
		r.Undecide("R3", construct, "", "viewTimePart(v string) not found")
		return
	}
	param := info.Defs[vtp.Type.Params.List[0].Names[0]]
	// stamp lengths the readers branch on: case clauses of switches on len(<string>) and `chars = k`
	lens := map[int64]bool{}
	for _, fd := range core.AllFuncDecls(pk) {
		if fd.Body == nil || (fd.Name.Name != "timeOfView" && fd.Name.Name != "minMaxViews") {
			continue
		}
		ast.Inspect(fd.Body, func(n ast.Node) bool {
			switch x := n.(type) {
			case *ast.SwitchStmt:
				if c, ok := ast.Unparen(x.Tag).(*ast.CallExpr); ok && core.BuiltinName(info, c) == "len" {
					for _, cl := range x.Body.List {
						for _, e := range cl.(*ast.CaseClause).List {
							if v, ok := c04ConstInt(info, e); ok {
								lens[v] = true
							}
						}
					}
				}
			case *ast.AssignStmt:
				if len(x.Lhs) == 1 && len(x.Rhs) == 1 {
					if id, ok := x.Lhs[0].(*ast.Ident); ok && id.Name == "chars" {
						if v, ok := c04ConstInt(info, x.Rhs[0]); ok {
							lens[v] = true
						}
					}
				}
			}
			return true
		})
	}
	var ls []int64
	for v := range lens {
		ls = append(ls, v)
	}
	sort.Slice(ls, func(i, j int) bool { return ls[i] < ls[j] })
	r.Floor("C18/R3 stamp lengths the view readers branch on", len(ls), 4)
	// the package's plain view names
	names := map[string]string{}
	for _, nm := range []string{"viewStandard"} {
		if c, ok := pk.Types.Scope().Lookup(nm).(*types.Const); ok && c.Val().Kind() == constant.String {
			names[nm] = constant.StringVal(c.Val())
		}
	}
	if c, ok := pk.Types.Scope().Lookup("viewBSIGroupPrefix").(*types.Const); ok && c.Val().Kind() == constant.String {
		names["viewBSIGroupPrefix+\"f\""] = constant.StringVal(c.Val()) + "f"
	}
	r.Floor("C18/R3 plain view names", len(names), 1)
	var keys []string
	for k := range names {
		keys = append(keys, k)
	}
	sort.Strings(keys)
	for _, k := range keys {
		f := &c18fold{info: info, env: map[types.Object]c18val{param: {s: names[k], typ: 's'}}}
		v, returned, ok := f.run(vtp.Body.List)
		c2 := construct + ": " + k
		switch {
		case !ok || !returned || v.typ != 's':
			r.Undecide("R3", c2, p.Pos(vtp.Pos()), "viewTimePart is outside the constant-folding subset")
		case lens[int64(len(v.s))]:
			r.Violate("R3", c2, p.Pos(vtp.Pos()), fmt.Sprintf("viewTimePart(%q) = %q has %d characters, one of the stamp lengths %v that minMaxViews and timeOfView branch on: the view is taken for a time view of that unit, and a Rows()/range query on a field whose coarsest unit has that length fails to parse it (or bounds the range with it)", names[k], v.s, len(v.s), ls))
		default:
			r.HoldAt("R3", c2, p.Pos(vtp.Pos()), fmt.Sprintf("viewTimePart(%q) = %q, length %d, is no stamp length %v", names[k], v.s, len(v.s), ls))
		}
	}
}
