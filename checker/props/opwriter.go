package props

import (
	"go/ast"
	"go/types"
	"strings"

	"verif/checker/core"
	"verif/checker/flow"
)

// opWriterDetachExempt: functions that leave the op log detached by design.
var opWriterDetachExempt = map[string]string{
	"(*fragment).safeClose": "closes the data file itself; fragment.reopen re-attaches the writer to the reopened file before the next write (f.file == nil is its trigger)",
}

// opWriterReattached: a fragment function that detaches the op-log writer
// (<fragment>.storage.OpWriter = nil, so that a bulk write is not logged bit
// by bit) must have it attached again on every path on which it returns:
// through a non-nil assignment, a (transitive) call of a function that makes
// one (openStorage, and with it the snapshot path), or the wait for a queued
// snapshot. roaring.Bitmap.writeOp does nothing while the writer is nil, so
// every later acknowledged write would be lost at the next restart.
func opWriterReattached(p *core.Program, r *core.Report, rule string) {
	pk := p.Pkg("")
	if pk == nil {
		return
	}
	info := pk.TypesInfo
	isOpWriter := func(e ast.Expr) bool {
		sel, ok := ast.Unparen(e).(*ast.SelectorExpr)
		if !ok || sel.Sel.Name != "OpWriter" {
			return false
		}
		_, ok = core.FieldSel(info, sel.X, core.ModPath, "fragment", "storage")
		return ok
	}
	isNil := func(e ast.Expr) bool {
		id, ok := ast.Unparen(e).(*ast.Ident)
		return ok && id.Name == "nil"
	}
	decls := map[*types.Func]*ast.FuncDecl{}
	for _, fd := range core.AllFuncDecls(pk) {
		if fd.Body == nil || strings.HasSuffix(p.Fset.Position(fd.Pos()).Filename, "_test.go") {
			continue
		}
		if fn, ok := info.Defs[fd.Name].(*types.Func); ok {
			decls[fn] = fd
		}
	}
	// functions that attach the writer, directly or through a callee
	attaches := map[*types.Func]bool{}
	for fn, fd := range decls {
		ast.Inspect(fd.Body, func(n ast.Node) bool {
			if as, ok := n.(*ast.AssignStmt); ok && len(as.Lhs) == len(as.Rhs) {
				for i, l := range as.Lhs {
					if isOpWriter(l) && !isNil(as.Rhs[i]) {
						attaches[fn] = true
					}
				}
			}
			return true
		})
	}
	for changed := true; changed; {
		changed = false
		for fn, fd := range decls {
			if attaches[fn] {
				continue
			}
			ast.Inspect(fd.Body, func(n ast.Node) bool {
				if c, ok := n.(*ast.CallExpr); ok {
					if g := core.CalleeOf(info, c); g != nil && attaches[g] && !attaches[fn] {
						attaches[fn] = true
						changed = true
					}
				}
				return true
			})
		}
	}
	nDetach := 0
	for fn, fd := range decls {
		detaches := false
		ast.Inspect(fd.Body, func(n ast.Node) bool {
			if as, ok := n.(*ast.AssignStmt); ok && len(as.Lhs) == len(as.Rhs) {
				for i, l := range as.Lhs {
					if isOpWriter(l) && isNil(as.Rhs[i]) {
						detaches = true
					}
				}
			}
			return true
		})
		if !detaches {
			continue
		}
		_ = fn
		construct := core.FuncName(fd) + ": op-log writer attached again before returning"
		if why, ok := opWriterDetachExempt[core.FuncName(fd)]; ok {
			r.HoldAt(rule, construct, p.Pos(fd.Pos()), "exempt: "+why)
			continue
		}
		nDetach++
		const bDetached flow.State = 1
		var bad []string
		h := flow.Hooks{Info: info}
		h.Atom = func(n ast.Node, s flow.State) []flow.State {
			switch x := n.(type) {
			case *ast.AssignStmt:
				if len(x.Lhs) == len(x.Rhs) {
					for i, l := range x.Lhs {
						if isOpWriter(l) {
							if isNil(x.Rhs[i]) {
								s |= bDetached
							} else {
								s &^= bDetached
							}
						}
					}
				}
			case *ast.CallExpr:
				if g := core.CalleeOf(info, x); g != nil {
					if attaches[g] || (g.Name() == "unprotectedAwaitSnapshot" && recvNamed(g, "fragment")) {
						s &^= bDetached
					}
				}
			}
			return []flow.State{s}
		}
		h.Return = func(ret *ast.ReturnStmt, s flow.State) {
			if s&bDetached != 0 {
				pos := p.Pos(fd.End())
				if ret != nil {
					pos = p.Pos(ret.Pos())
				}
				bad = append(bad, pos)
			}
		}
		it := flow.Run(h, fd.Body, 0)
		switch {
		case it.Unsupported != "":
			r.Undecide(rule, construct, p.Pos(fd.Pos()), it.Unsupported)
		case len(bad) > 0:
			r.Violate(rule, construct, p.Pos(fd.Pos()), "returns at "+strings.Join(dedupe(bad), ", ")+" with <fragment>.storage.OpWriter still nil: roaring.Bitmap.writeOp silently does nothing without a writer, so every write acknowledged after this call is missing from the op log and is lost at the next restart")
		default:
			r.HoldAt(rule, construct, p.Pos(fd.Pos()), "every return follows a re-attachment (non-nil assignment, a call reaching openStorage, or the wait for the queued snapshot)")
		}
	}
	r.Floor("op-log detach sites outside the exempt table", nDetach, 1)
}
