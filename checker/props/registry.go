// Package props holds one file per property: the rule instances, their slots
// (filled from the repository by type-resolved queries) and the frozen,
// reasoned exception tables.
package props

import (
	"sort"

	"verif/checker/core"
)

// Func runs one property's rules and records obligations.
type Func func(p *core.Program, r *core.Report)

var registry = map[string]Func{}

func register(id string, f Func) { registry[id] = f }

func Lookup(id string) Func { return registry[id] }

func IDs() []string {
	var out []string
	for k := range registry {
		out = append(out, k)
	}
	sort.Strings(out)
	return out
}
