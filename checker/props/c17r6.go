package props

import (
	"go/ast"
	"go/token"
	"go/types"
	"strings"

	"verif/checker/core"
	"verif/checker/flow"
)

// c17ShapingListsAreGlobal: rule R6. A list computed ahead of the per-shard
// work and then handed to every shard (GroupBy's child rows) shapes the whole
// result, so every node must compute the same list. On a remote leg the
// function's own shards/options describe this node's share only: the helper
// that computes the list must not be called with them there.
func c17ShapingListsAreGlobal(p *core.Program, r *core.Report) {
	pk := p.Pkg("")
	if pk == nil {
		return
	}
	info := pk.TypesInfo
	n := 0
	for _, fd := range core.AllFuncDecls(pk) {
		if fd.Body == nil || core.RecvName(fd) != "executor" || strings.HasSuffix(p.Fset.Position(fd.Pos()).Filename, "_test.go") {
			continue
		}
		var optObj types.Object
		for _, fl := range fd.Type.Params.List {
			for _, nm := range fl.Names {
				if pt, ok := info.TypeOf(fl.Type).(*types.Pointer); ok && core.IsNamed(pt.Elem(), core.ModPath, "execOptions") {
					optObj = info.Defs[nm]
				}
			}
		}
		if optObj == nil {
			continue
		}
		// pre-computations: a cluster-wide helper (takes shards and opt) whose result is stored and later
		// captured by the map function handed to mapReduce
		type site struct {
			call   *ast.CallExpr
			optArg ast.Expr
		}
		var sites []site
		usesMapReduce := false
		ast.Inspect(fd.Body, func(m ast.Node) bool {
			c, ok := m.(*ast.CallExpr)
			if !ok {
				return true
			}
			g := core.CalleeOf(info, c)
			if g == nil {
				return true
			}
			if g.Name() == "mapReduce" {
				usesMapReduce = true
				return true
			}
			if !recvNamed(g, "executor") || !strings.HasPrefix(g.Name(), "execute") || strings.HasSuffix(g.Name(), "Shard") {
				return true
			}
			for _, a := range c.Args {
				if pt, ok := info.TypeOf(a).(*types.Pointer); ok && core.IsNamed(pt.Elem(), core.ModPath, "execOptions") {
					sites = append(sites, site{c, a})
				}
			}
			return true
		})
		if !usesMapReduce || len(sites) == 0 {
			continue
		}
		for _, st := range sites {
			n++
			g := core.CalleeOf(info, st.call)
			construct := core.FuncName(fd) + ": " + g.Name() + " ahead of the per-shard work"
			const (
				bNotRemote flow.State = 1 << iota
				bAlias                // the options local still is the parameter
			)
			argObj := func() types.Object {
				if id, ok := ast.Unparen(st.optArg).(*ast.Ident); ok {
					return info.ObjectOf(id)
				}
				return nil
			}()
			var bad []string
			h := flow.Hooks{Info: info}
			h.Refine = func(c ast.Expr, taken bool, s flow.State) (flow.State, bool) {
				e := ast.Unparen(c)
				neg := false
				if u, ok := e.(*ast.UnaryExpr); ok && u.Op == token.NOT {
					e, neg = ast.Unparen(u.X), true
				}
				if sel, ok := e.(*ast.SelectorExpr); ok && sel.Sel.Name == "Remote" {
					if id, ok := ast.Unparen(sel.X).(*ast.Ident); ok && info.ObjectOf(id) == optObj {
						if taken == neg {
							return s | bNotRemote, true
						}
						return s &^ bNotRemote, true
					}
				}
				return s, true
			}
			h.Atom = func(nd ast.Node, s flow.State) []flow.State {
				switch x := nd.(type) {
				case *ast.AssignStmt:
					for i, l := range x.Lhs {
						id, ok := ast.Unparen(l).(*ast.Ident)
						if !ok || argObj == nil || info.ObjectOf(id) != argObj || argObj == optObj {
							continue
						}
						var rhs ast.Expr
						if len(x.Rhs) == len(x.Lhs) {
							rhs = x.Rhs[i]
						}
						if rid, ok := ast.Unparen(rhs).(*ast.Ident); ok && rhs != nil && info.ObjectOf(rid) == optObj {
							s |= bAlias
						} else {
							s &^= bAlias
						}
					}
					// *local = *opt copies the options; a following local.Remote = false makes them global
					for i, l := range x.Lhs {
						if sel, ok := ast.Unparen(l).(*ast.SelectorExpr); ok && sel.Sel.Name == "Remote" && i < len(x.Rhs) {
							if id, ok := ast.Unparen(sel.X).(*ast.Ident); ok && argObj != nil && info.ObjectOf(id) == argObj && argObj != optObj {
								if v, ok := ast.Unparen(x.Rhs[i]).(*ast.Ident); ok && v.Name == "false" {
									s &^= bAlias
								}
							}
						}
					}
				case *ast.CallExpr:
					if x == st.call {
						isParam := argObj == optObj || s&bAlias != 0 || argObj == nil
						if isParam && s&bNotRemote == 0 {
							bad = append(bad, p.Pos(x.Pos()))
						}
					}
				}
				return []flow.State{s}
			}
			it := flow.Run(h, fd.Body, 0)
			switch {
			case it.Unsupported != "":
				r.Undecide("R6", construct, p.Pos(st.call.Pos()), it.Unsupported)
			case len(bad) > 0:
				r.Violate("R6", construct, p.Pos(st.call.Pos()), "a list that every shard's work then uses is computed with this call's own options on a path where the call may be a remote leg: the node evaluates it over its own shards only, so different nodes work from different lists and the merged result depends on how the shards are placed")
			default:
				r.HoldAt("R6", construct, p.Pos(st.call.Pos()), "evaluated with the call's own options only where it is not a remote leg")
			}
		}
	}
	r.Floor("C17/R6 cluster-wide pre-computations inside map/reduce callers", n, 1)
}
