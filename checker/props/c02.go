package props

import (
	"go/ast"
	"go/constant"
	"go/token"
	"go/types"
	"strings"
	"sort"

	"verif/checker/core"
	"verif/checker/flow"

	"golang.org/x/tools/go/packages"
)

func init() { register("C02", c02) }

const (
	c02W  flow.State = 1 << iota // the receiver's collection was written on this path
	c02L                         // the receiver's lookaside key was (re)assigned, or shown not to concern the written key
	c02OW                        // another object's collection was written
	c02OL                        // ... and that object's lookaside is known invalid/refreshed
)

type c02Type struct {
	named        *types.Named
	keyField     string
	contField    string
	collFields   map[string]bool
	nilGuarded   bool // every lookaside hit test also requires the cached container to be non-nil
	ctorSentinel bool
}

func c02(p *core.Program, r *core.Report) {
	r.Rule("R1", "lookaside coherence: for every Containers implementation that caches its most recently used container (a *Container field paired with a uint64 key field), every method path that writes the underlying collection (tree Set/Put/Delete/Every, slice/tree reassignment, element stores) also (re)assigns the lookaside key or runs under `key != lastKey`; a collection write into another, freshly constructed object requires that a fresh object's lookaside is invalid (constructor sentinel, or every hit test also requires a non-nil cached container)")
	r.Rule("R3", "no removal during enumeration: Containers.Remove is not called inside a loop over an iterator of the same collection (the B-tree enumerator is invalidated by Delete); UpdateEvery is the supported way")
	r.Rule("R4", "found is not position: a container iterator skips keys whose container is nil, so wherever package roaring uses the `found` result of Containers.Iterator(key) to take the first container the iterator yields as the container of that key, it compares the yielded key with the key it asked for")
	r.Rule("R5", "count repaired after an in-place union: (*Container).unionInPlace leaves a bitmap container's cardinality stale by design, so in every function or function literal of package roaring that calls it, every path from the call recounts (Container.Repair / Containers.Repair) before the result's N() is read and before the function returns; the only accepted shortcut is a test of the result's own type after the call (not a bitmap: count was maintained)")
	c02FoundIsNotPosition(p, r)
	c02CountRepaired(p, r)
	r.Rule("R6", "Last may be empty: a function of package roaring that takes the container returned by Containers.Last tests it (its N(), or against nil) on every path before calling any other method on it")
	c02LastMayBeEmpty(p, r)
	r.Rule("R7", "shared containers are frozen: a package-level *Container of package roaring (fullContainer, which unions hand out whenever one side is full) is initialised, and only ever assigned, from (*Container).Freeze, so that Thaw copies it before any holder writes")
	sharedSingletonsFrozen(p, r, "R7")
	r.NotDecided = "agreement of all read paths with the sequential model for all histories; exact changed-bit counts (value reasoning)"
	rp := p.Pkg("roaring")
	if rp == nil {
		r.Undecide("R1", "package roaring", "", "not loaded")
		return
	}
	info := rp.TypesInfo
	ifaceObj := rp.Types.Scope().Lookup("Containers")
	if ifaceObj == nil {
		r.Undecide("R1", "interface Containers", "", "not found")
		return
	}
	iface, _ := ifaceObj.Type().Underlying().(*types.Interface)
	contPtr := types.NewPointer(rp.Types.Scope().Lookup("Container").Type())

	// tree/enumerator writers: functions of package roaring that (transitively)
	// bump a tree's version or store a *Container into a tree element.
	treeWriter := c02TreeWriters(rp)

	var tys []*c02Type
	for _, name := range rp.Types.Scope().Names() {
		tn, ok := rp.Types.Scope().Lookup(name).(*types.TypeName)
		if !ok {
			continue
		}
		st, ok := tn.Type().Underlying().(*types.Struct)
		if !ok || iface == nil || !types.Implements(types.NewPointer(tn.Type()), iface) {
			continue
		}
		ct := &c02Type{named: tn.Type().(*types.Named), collFields: map[string]bool{}}
		for i := 0; i < st.NumFields(); i++ {
			f := st.Field(i)
			switch {
			case types.Identical(f.Type(), contPtr):
				ct.contField = f.Name()
			case types.Identical(f.Type(), types.Typ[types.Uint64]):
				ct.keyField = f.Name()
			default:
				ct.collFields[f.Name()] = true
			}
		}
		if ct.contField == "" || ct.keyField == "" {
			continue // no lookaside
		}
		tys = append(tys, ct)
	}
	r.Floor("C02/R1 Containers implementations with a lookaside", len(tys), 2)
	sort.Slice(tys, func(i, j int) bool { return tys[i].named.Obj().Name() < tys[j].named.Obj().Name() })

	for _, ct := range tys {
		tname := ct.named.Obj().Name()
		// methods
		var methods []*ast.FuncDecl
		decls := map[*types.Func]*ast.FuncDecl{}
		for _, fd := range core.AllFuncDecls(rp) {
			if core.RecvName(fd) == tname && fd.Body != nil {
				methods = append(methods, fd)
				if o, ok := info.Defs[fd.Name].(*types.Func); ok {
					decls[o] = fd
				}
			}
		}
		// hit tests
		ct.nilGuarded = true
		nHit := 0
		for _, fd := range methods {
			ast.Inspect(fd.Body, func(n ast.Node) bool {
				ifs, ok := n.(*ast.IfStmt)
				if !ok {
					return true
				}
				if !c02MentionsKeyEq(info, ifs.Cond, ct) {
					return true
				}
				returnsCached := false
				for _, st := range ifs.Body.List {
					if ret, ok := st.(*ast.ReturnStmt); ok && len(ret.Results) == 1 {
						if sel, ok := ast.Unparen(ret.Results[0]).(*ast.SelectorExpr); ok && sel.Sel.Name == ct.contField {
							returnsCached = true
						}
					}
				}
				if !returnsCached {
					return true
				}
				nHit++
				guarded := false
				ast.Inspect(ifs.Cond, func(m ast.Node) bool {
					if be, ok := m.(*ast.BinaryExpr); ok && be.Op == token.NEQ {
						if sel, ok := ast.Unparen(be.X).(*ast.SelectorExpr); ok && sel.Sel.Name == ct.contField {
							if id, ok := ast.Unparen(be.Y).(*ast.Ident); ok && id.Name == "nil" {
								guarded = true
							}
						}
					}
					return true
				})
				if !guarded {
					ct.nilGuarded = false
				}
				return true
			})
		}
		if nHit == 0 {
			ct.nilGuarded = false
		}
		// constructors
		ctors := map[*types.Func]bool{}
		for _, fd := range core.AllFuncDecls(rp) {
			if fd.Recv != nil || fd.Body == nil {
				continue
			}
			ast.Inspect(fd.Body, func(n ast.Node) bool {
				cl, ok := n.(*ast.CompositeLit)
				if !ok || core.NamedOf(info.TypeOf(cl)) != ct.named {
					return true
				}
				if o, ok := info.Defs[fd.Name].(*types.Func); ok {
					sig := o.Type().(*types.Signature)
					if sig.Results().Len() == 1 && core.NamedOf(sig.Results().At(0).Type()) == ct.named {
						ctors[o] = true
						for _, el := range cl.Elts {
							if kv, ok := el.(*ast.KeyValueExpr); ok {
								if id, ok := kv.Key.(*ast.Ident); ok && id.Name == ct.keyField {
									if tv, ok := info.Types[kv.Value]; ok && tv.Value != nil && constant.Sign(tv.Value) != 0 {
										ct.ctorSentinel = true
									}
								}
							}
						}
					}
				}
				return true
			})
		}
		freshInvalid := ct.nilGuarded || ct.ctorSentinel
		if freshInvalid {
			why := "the constructor sets the lookaside key to a sentinel"
			if ct.nilGuarded {
				why = "every lookaside hit test also requires a non-nil cached container"
			}
			r.Hold("R1", tname+" fresh-object lookaside", why)
		}

		// per-method flow
		memo := map[*types.Func][]flow.State{}
		active := map[*types.Func]bool{}
		var summarize func(fn *types.Func) []flow.State
		analyse := func(fd *ast.FuncDecl) ([]flow.State, string) {
			var recvObj types.Object
			if len(fd.Recv.List[0].Names) > 0 {
				recvObj = info.Defs[fd.Recv.List[0].Names[0]]
			}
			freshLocals := map[types.Object]bool{}
			// baseOf: returns (isRecv, isOtherOfT)
			baseOf := func(e ast.Expr) (bool, bool, types.Object) {
				for {
					switch x := ast.Unparen(e).(type) {
					case *ast.SelectorExpr:
						e = x.X
						continue
					case *ast.IndexExpr:
						e = x.X
						continue
					case *ast.SliceExpr:
						e = x.X
						continue
					case *ast.Ident:
						o := info.ObjectOf(x)
						if o == nil {
							return false, false, nil
						}
						if o == recvObj {
							return true, false, o
						}
						if core.NamedOf(o.Type()) == ct.named {
							return false, true, o
						}
					}
					return false, false, nil
				}
			}
			isCollSel := func(e ast.Expr) (ast.Expr, bool) {
				// e is X.<collField>... rooted; returns X
				for {
					switch x := ast.Unparen(e).(type) {
					case *ast.IndexExpr:
						e = x.X
						continue
					case *ast.SliceExpr:
						e = x.X
						continue
					case *ast.SelectorExpr:
						if ct.collFields[x.Sel.Name] && core.NamedOf(info.TypeOf(x.X)) == ct.named {
							return x.X, true
						}
						return nil, false
					}
					return nil, false
				}
			}
			enumFrom := map[types.Object]ast.Expr{} // enumerator locals -> base expr they came from
			h := flow.Hooks{Info: info}
			mark := func(s flow.State, base ast.Expr, write bool) flow.State {
				isRecv, isOther, obj := baseOf(base)
				switch {
				case isRecv && write:
					return s | c02W
				case isRecv:
					return s | c02L
				case isOther && write:
					s |= c02OW
					if freshLocals[obj] && freshInvalid {
						s |= c02OL
					}
					return s
				case isOther:
					return s | c02OL
				}
				return s
			}
			h.Atom = func(n ast.Node, s flow.State) []flow.State {
				switch x := n.(type) {
				case *ast.AssignStmt:
					for i, l := range x.Lhs {
						if base, ok := isCollSel(l); ok {
							s = mark(s, base, true)
						}
						if sel, ok := ast.Unparen(l).(*ast.SelectorExpr); ok && sel.Sel.Name == ct.keyField && core.NamedOf(info.TypeOf(sel.X)) == ct.named {
							s = mark(s, sel.X, false)
						}
						// local := ctor()  /  e, _ := X.tree.Seek(..)
						if id, ok := l.(*ast.Ident); ok && len(x.Rhs) >= 1 {
							rhs := x.Rhs[0]
							if len(x.Rhs) == len(x.Lhs) {
								rhs = x.Rhs[i]
							}
							if c, ok := ast.Unparen(rhs).(*ast.CallExpr); ok {
								if fn := core.CalleeOf(info, c); fn != nil {
									if ctors[fn] {
										freshLocals[info.ObjectOf(id)] = true
									}
									if sel, ok := ast.Unparen(c.Fun).(*ast.SelectorExpr); ok {
										if base, ok := isCollSel(sel.X); ok && i == 0 {
											enumFrom[info.ObjectOf(id)] = base
										}
									}
								}
							}
						}
					}
					return []flow.State{s}
				case *ast.CallExpr:
					fn := core.CalleeOf(info, x)
					sel, _ := ast.Unparen(x.Fun).(*ast.SelectorExpr)
					if fn == nil || sel == nil {
						return []flow.State{s}
					}
					// X.<coll>.M(...) with M a tree writer
					if base, ok := isCollSel(sel.X); ok && treeWriter[fn] {
						return []flow.State{mark(s, base, true)}
					}
					// e.Every(...) with e obtained from X.<coll>
					if id, ok := ast.Unparen(sel.X).(*ast.Ident); ok && treeWriter[fn] {
						if base, ok := enumFrom[info.ObjectOf(id)]; ok {
							return []flow.State{mark(s, base, true)}
						}
					}
					// same-type method call
					if fd2 := decls[fn]; fd2 != nil {
						isRecv, isOther, _ := baseOf(sel.X)
						var out []flow.State
						for _, e := range summarize(fn) {
							o := s
							if isRecv {
								o |= e & (c02W | c02L)
							} else if isOther {
								if e&c02W != 0 {
									o |= c02OW
								}
								if e&c02L != 0 {
									o |= c02OL
								}
							}
							out = append(out, o)
						}
						if len(out) > 0 {
							return out
						}
					}
				}
				return []flow.State{s}
			}
			h.Refine = func(cond ast.Expr, taken bool, s flow.State) (flow.State, bool) {
				// key == X.lastKey  false branch / key != X.lastKey true branch: the
				// lookaside does not concern the key being written
				if be, ok := ast.Unparen(cond).(*ast.BinaryExpr); ok && (be.Op == token.EQL || be.Op == token.NEQ) {
					for _, side := range []ast.Expr{be.X, be.Y} {
						if sel, ok := ast.Unparen(side).(*ast.SelectorExpr); ok && sel.Sel.Name == ct.keyField && core.NamedOf(info.TypeOf(sel.X)) == ct.named {
							if (be.Op == token.EQL) != taken {
								return mark(s, sel.X, false), true
							}
						}
					}
				}
				return s, true
			}
			var exits []flow.State
			h.Return = func(ret *ast.ReturnStmt, s flow.State) { exits = append(exits, s) }
			it := flow.Run(h, fd.Body, 0)
			return exits, it.Unsupported
		}
		summarize = func(fn *types.Func) []flow.State {
			if e, ok := memo[fn]; ok {
				return e
			}
			if active[fn] {
				return []flow.State{0}
			}
			active[fn] = true
			e, _ := analyse(decls[fn])
			delete(active, fn)
			memo[fn] = e
			return e
		}
		nWriters := 0
		// helpers: unexported methods called only from methods of the same type
		// are judged through their callers' summaries, not on their own.
		calledBySelf, calledElsewhere := map[string]bool{}, map[string]bool{}
		for _, fd2 := range core.AllFuncDecls(rp) {
			if fd2.Body == nil {
				continue
			}
			ast.Inspect(fd2.Body, func(n ast.Node) bool {
				if c, ok := n.(*ast.CallExpr); ok {
					if fn := core.CalleeOf(info, c); fn != nil && decls[fn] != nil {
						if core.RecvName(fd2) == tname {
							calledBySelf[fn.Name()] = true
						} else {
							calledElsewhere[fn.Name()] = true
						}
					}
				}
				return true
			})
		}
		for _, fd := range methods {
			if !fd.Name.IsExported() && calledBySelf[fd.Name.Name] && !calledElsewhere[fd.Name.Name] {
				continue
			}
			exits, unsup := analyse(fd)
			construct := "(*" + tname + ")." + fd.Name.Name
			if unsup != "" {
				r.Undecide("R1", construct, p.Pos(fd.Pos()), unsup)
				continue
			}
			writes, bad, badOther := false, false, false
			for _, e := range exits {
				if e&(c02W|c02OW) != 0 {
					writes = true
				}
				if e&c02W != 0 && e&c02L == 0 {
					bad = true
				}
				if e&c02OW != 0 && e&c02OL == 0 {
					badOther = true
				}
			}
			if !writes {
				continue
			}
			nWriters++
			switch {
			case bad:
				r.Violate("R1", construct, p.Pos(fd.Pos()), "a path writes the container collection without refreshing or invalidating the lookaside ("+ct.keyField+"/"+ct.contField+"): a later Get/GetOrCreate of the most recently used key answers with the replaced container (or with 'absent')")
			case badOther:
				r.Violate("R1", construct, p.Pos(fd.Pos()), "writes the collection of another "+tname+" whose lookaside is not known to be invalid: a fresh object's zero lookaside reads as 'key 0 looked up and absent'")
			default:
				r.HoldAt("R1", construct, p.Pos(fd.Pos()), "every collection-writing path maintains the lookaside")
			}
		}
		r.Floor("C02/R1 collection-writing methods of "+tname, nWriters, 6)
	}

	// ---- R3: Remove inside an iterator loop
	c02R3(p, r, rp)
}

func c02MentionsKeyEq(info *types.Info, cond ast.Expr, ct *c02Type) bool {
	found := false
	ast.Inspect(cond, func(n ast.Node) bool {
		if be, ok := n.(*ast.BinaryExpr); ok && be.Op == token.EQL {
			for _, side := range []ast.Expr{be.X, be.Y} {
				if sel, ok := ast.Unparen(side).(*ast.SelectorExpr); ok && sel.Sel.Name == ct.keyField && core.NamedOf(info.TypeOf(sel.X)) == ct.named {
					found = true
				}
			}
		}
		return true
	})
	return found
}

// c02TreeWriters: functions of package roaring that bump tree.ver or assign a
// *Container-typed field of a tree element, transitively through static calls.
func c02TreeWriters(rp *packages.Package) map[*types.Func]bool {
	info := rp.TypesInfo
	direct := map[*types.Func]bool{}
	calls := map[*types.Func][]*types.Func{}
	contPtr := types.NewPointer(rp.Types.Scope().Lookup("Container").Type())
	for _, fd := range core.AllFuncDecls(rp) {
		o, ok := info.Defs[fd.Name].(*types.Func)
		if !ok || fd.Body == nil {
			continue
		}
		rn := core.RecvName(fd)
		if rn != "tree" && rn != "enumerator" && rn != "x" && rn != "d" {
			continue
		}
		ast.Inspect(fd.Body, func(n ast.Node) bool {
			switch x := n.(type) {
			case *ast.IncDecStmt:
				if _, ok := core.FieldSel(info, x.X, roaringPath, "tree", "ver"); ok {
					direct[o] = true
				}
			case *ast.AssignStmt:
				for _, l := range x.Lhs {
					if sel, ok := ast.Unparen(l).(*ast.SelectorExpr); ok {
						if s, ok := info.Selections[sel]; ok && s.Kind() == types.FieldVal && types.Identical(s.Type(), contPtr) {
							if n := core.NamedOf(s.Recv()); n != nil && n.Obj().Name() == "de" {
								direct[o] = true
							}
						}
					}
				}
			case *ast.CallExpr:
				if c := core.CalleeOf(info, x); c != nil {
					calls[o] = append(calls[o], c)
				}
			}
			return true
		})
	}
	for changed := true; changed; {
		changed = false
		for f, cs := range calls {
			if direct[f] {
				continue
			}
			for _, c := range cs {
				if direct[c] {
					direct[f] = true
					changed = true
				}
			}
		}
	}
	return direct
}

func c02R3(p *core.Program, r *core.Report, rp *packages.Package) {
	info := rp.TypesInfo
	n := 0
	for _, fd := range core.AllFuncDecls(rp) {
		if fd.Body == nil {
			continue
		}
		ast.Inspect(fd.Body, func(nd ast.Node) bool {
			fs, ok := nd.(*ast.ForStmt)
			if !ok || fs.Cond == nil {
				return true
			}
			// for itr.Next() { ... }
			c, ok := ast.Unparen(fs.Cond).(*ast.CallExpr)
			if !ok {
				return true
			}
			fn := core.CalleeOf(info, c)
			if fn == nil || fn.Name() != "Next" {
				return true
			}
			sig := fn.Type().(*types.Signature)
			if sig.Recv() == nil || !core.IsNamed(sig.Recv().Type(), roaringPath, "ContainerIterator") {
				return true
			}
			n++
			bad := token.NoPos
			ast.Inspect(fs.Body, func(m ast.Node) bool {
				if cc, ok := m.(*ast.CallExpr); ok {
					if f2 := core.CalleeOf(info, cc); f2 != nil && f2.Name() == "Remove" {
						if s2 := f2.Type().(*types.Signature); s2.Recv() != nil && core.IsNamed(s2.Recv().Type(), roaringPath, "Containers") {
							bad = cc.Pos()
						}
					}
				}
				return true
			})
			construct := core.FuncName(fd) + " iterator loop"
			if bad.IsValid() {
				if why, ok := c02R3Exempt[core.FuncName(fd)]; ok {
					r.HoldAt("R3", construct, p.Pos(bad), "exempt: "+why)
				} else {
					r.Violate("R3", construct, p.Pos(bad), "Containers.Remove is called while a ContainerIterator over the collection is live: the B-tree enumerator is invalidated by the delete and skips or repeats containers")
				}
			} else {
				r.HoldAt("R3", construct, p.Pos(fs.Pos()), "no removal inside the loop")
			}
			return true
		})
	}
	r.Floor("C02/R3 ContainerIterator loops in package roaring", n, 10)
}

// frozen exceptions for R3
var c02R3Exempt = map[string]string{
	"(*Bitmap).removeEmptyContainers": "dead code: not called from any non-test function (confirmed with deadcode); it collects nothing after the first removal on a B-tree but no caller exists",
}

// c02FoundIsNotPosition: R4.
func c02FoundIsNotPosition(p *core.Program, r *core.Report) {
	rp := p.Pkg("roaring")
	info := rp.TypesInfo
	n := 0
	for _, fd := range core.AllFuncDecls(rp) {
		if fd.Body == nil || strings.HasSuffix(p.Fset.Position(fd.Pos()).Filename, "_test.go") {
			continue
		}
		// citer, found := X.Containers.Iterator(k)
		ast.Inspect(fd.Body, func(nd ast.Node) bool {
			as, ok := nd.(*ast.AssignStmt)
			if !ok || len(as.Lhs) != 2 || len(as.Rhs) != 1 {
				return true
			}
			c, ok := ast.Unparen(as.Rhs[0]).(*ast.CallExpr)
			if !ok {
				return true
			}
			fn := core.CalleeOf(info, c)
			if fn == nil || fn.Name() != "Iterator" || len(c.Args) != 1 {
				return true
			}
			if sel, ok := ast.Unparen(c.Fun).(*ast.SelectorExpr); !ok || !strings.HasSuffix(types.TypeString(info.TypeOf(sel.X), nil), "Containers") {
				return true
			}
			fid, ok := as.Lhs[1].(*ast.Ident)
			if !ok || fid.Name == "_" {
				return true
			}
			foundObj := info.ObjectOf(fid)
			itObj := info.ObjectOf(as.Lhs[0].(*ast.Ident))
			n++
			construct := core.FuncName(fd) + " use of found from Iterator(" + types.ExprString(c.Args[0]) + ")"
			// every if whose condition mentions found: its body, if it takes a Value(), compares the key
			bad := ""
			ast.Inspect(fd.Body, func(m ast.Node) bool {
				is, ok := m.(*ast.IfStmt)
				if !ok {
					return true
				}
				mentions := false
				ast.Inspect(is.Cond, func(k ast.Node) bool {
					if id, ok := k.(*ast.Ident); ok && info.ObjectOf(id) == foundObj {
						mentions = true
					}
					return true
				})
				if !mentions {
					return true
				}
				// keys bound from itr.Value() in the body
				keyVars := map[types.Object]bool{}
				takes := false
				ast.Inspect(is.Body, func(k ast.Node) bool {
					if va, ok := k.(*ast.AssignStmt); ok && len(va.Rhs) == 1 {
						if vc, ok := ast.Unparen(va.Rhs[0]).(*ast.CallExpr); ok {
							if vs, ok := ast.Unparen(vc.Fun).(*ast.SelectorExpr); ok && vs.Sel.Name == "Value" {
								if id, ok := ast.Unparen(vs.X).(*ast.Ident); ok && info.ObjectOf(id) == itObj {
									takes = true
									if kid, ok := va.Lhs[0].(*ast.Ident); ok && kid.Name != "_" {
										keyVars[info.ObjectOf(kid)] = true
									}
								}
							}
						}
					}
					return true
				})
				if !takes {
					return true
				}
				compares := false
				ast.Inspect(is.Body, func(k ast.Node) bool {
					if be, ok := k.(*ast.BinaryExpr); ok && (be.Op == token.EQL || be.Op == token.NEQ) {
						for _, side := range []ast.Expr{be.X, be.Y} {
							if id, ok := ast.Unparen(side).(*ast.Ident); ok && keyVars[info.ObjectOf(id)] {
								compares = true
							}
						}
					}
					return true
				})
				if !compares {
					bad = p.Pos(is.Pos())
				}
				return true
			})
			r.Check(bad == "", "R4", construct, p.Pos(as.Pos()), "the yielded key is compared with the key asked for", "at "+bad+" the first container the iterator yields is taken as the container of the key because `found` is true, without comparing keys: when the key is present with a nil container the iterator has moved on, and the next container is read in its place")
			return true
		})
	}
	r.Floor("C02/R4 uses of the iterator's found result", n, 1)
}
