package props

import (
	"go/ast"
	"go/types"
	"strings"

	"verif/checker/core"
	"verif/checker/flow"
)

// c10ChecksumIsCurrent: rule R2. Every write invalidates the cached checksum
// of the block it touches. A checksum may therefore be put into the cache only
// while the lock under which it was computed is still held: computed under one
// hold and stored under a later one, it overwrites the invalidation of any
// write that ran in between, and the block reports the checksum of contents
// it no longer has.
func c10ChecksumIsCurrent(p *core.Program, r *core.Report) {
	pk := p.Pkg("")
	if pk == nil {
		return
	}
	info := pk.TypesInfo
	n := 0
	for _, fd := range core.AllFuncDecls(pk) {
		if fd.Body == nil || core.RecvName(fd) != "fragment" || strings.HasSuffix(p.Fset.Position(fd.Pos()).Filename, "_test.go") {
			continue
		}
		stores := false
		ast.Inspect(fd.Body, func(m ast.Node) bool {
			if as, ok := m.(*ast.AssignStmt); ok {
				for _, l := range as.Lhs {
					if ix, ok := ast.Unparen(l).(*ast.IndexExpr); ok {
						if _, ok := core.FieldSel(info, ix.X, core.ModPath, "fragment", "checksums"); ok {
							stores = true
						}
					}
				}
			}
			return true
		})
		if !stores {
			continue
		}
		n++
		// one bit per local that holds a value produced (by a call) under the current hold of the lock
		bits := map[types.Object]flow.State{}
		bitOf := func(o types.Object) flow.State {
			if b, ok := bits[o]; ok {
				return b
			}
			if len(bits) >= 40 {
				return 0
			}
			b := flow.State(1) << uint(len(bits))
			bits[o] = b
			return b
		}
		var all flow.State
		var bad []string
		h := flow.Hooks{Info: info}
		h.Atom = func(nd ast.Node, s flow.State) []flow.State {
			switch x := nd.(type) {
			case *ast.CallExpr:
				if sel, ok := ast.Unparen(x.Fun).(*ast.SelectorExpr); ok {
					if _, ok := core.FieldSel(info, sel.X, core.ModPath, "fragment", "mu"); ok {
						switch sel.Sel.Name {
						case "Lock", "Unlock", "RLock", "RUnlock":
							return []flow.State{s &^ all}
						}
					}
				}
			case *ast.AssignStmt:
				for i, l := range x.Lhs {
					if ix, ok := ast.Unparen(l).(*ast.IndexExpr); ok {
						if _, ok := core.FieldSel(info, ix.X, core.ModPath, "fragment", "checksums"); ok {
							var rhs ast.Expr
							if len(x.Rhs) == len(x.Lhs) {
								rhs = x.Rhs[i]
							}
							ok2 := false
							switch v := ast.Unparen(rhs).(type) {
							case *ast.CallExpr:
								ok2 = true // computed right here
							case *ast.Ident:
								if b, has := bits[info.ObjectOf(v)]; has && s&b != 0 {
									ok2 = true
								}
							}
							if !ok2 {
								bad = append(bad, p.Pos(x.Pos()))
							}
						}
						continue
					}
					if id, ok := ast.Unparen(l).(*ast.Ident); ok && len(x.Rhs) == len(x.Lhs) {
						o := info.ObjectOf(id)
						if _, isCall := ast.Unparen(x.Rhs[i]).(*ast.CallExpr); isCall && o != nil {
							b := bitOf(o)
							all |= b
							s |= b
						} else if o != nil {
							if b, has := bits[o]; has {
								s &^= b
							}
						}
					}
				}
			}
			return []flow.State{s}
		}
		it := flow.Run(h, fd.Body, 0)
		construct := core.FuncName(fd) + ": a cached checksum was computed under the hold of the lock it is stored under"
		switch {
		case it.Unsupported != "":
			r.Undecide("R2", construct, p.Pos(fd.Pos()), it.Unsupported)
		case len(bad) > 0:
			r.Violate("R2", construct, p.Pos(fd.Pos()), "a value is stored into <fragment>.checksums at "+strings.Join(dedupe(bad), ", ")+" that was not produced since the fragment's lock was last taken or released: a write that ran in between has invalidated that block's checksum, and the store puts the checksum of the old contents back")
		default:
			r.HoldAt("R2", construct, p.Pos(fd.Pos()), "stored values are call results produced with no lock operation in between")
		}
	}
	r.Floor("C10/R2 functions filling the checksum cache", n, 1)
}
