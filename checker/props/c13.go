package props

import (
	"go/ast"
	"go/token"
	"go/types"
	"sort"
	"strings"

	"verif/checker/core"
	"verif/checker/flow"
)

func init() { register("C13", c13) }

// callers of the raw single-bit setter that are allowed to bypass the mutex
// guard (frozen, one reason each)
var c13RawSetters = map[string]string{
	"(*fragment).setBit":       "the guarded entry point (checked by the path rule)",
	"(*fragment).setValueBase": "writes BSI value rows of integer fields; never a mutex or bool fragment",
	"(*fragment).mergeBlock":   "anti-entropy replays the majority state of the replicas; outside this property's histories (Set/Clear/Import)",
}

func c13(p *core.Program, r *core.Report) {
	r.Rule("R5", "the batch keeps its order: a function outside fragment that calls fragment.bulkImport applies no function of package sort to the variables its row and column arguments are taken from")
	c13BatchOrderKept(p, r)
	r.Rule("R1", "guard dominance inside the fragment: in every fragment method that sets bits for a caller (setBit, bulkImport), every path to the raw setter (unprotectedSetBit / bulkImportStandard with a set) passes the mutex guard (handleMutex / bulkImportMutex) or the test that the fragment has no mutex vector; the raw single-bit setter is called only from the frozen set of functions")
	r.Rule("R2", "type guards on the bulk paths that do not know about mutex vectors: API.ImportRoaring and executor.executeSetRow (Store) refuse every field type except set (and time) before any fragment is touched; Field.importRoaring and fragment.setRow are called only from those paths")
	r.Rule("R3", "vector wiring: view.newFragment installs a mutex vector exactly for field types mutex and bool, and Field.Import refuses bool rows other than 0 and 1")
	r.Rule("R4", "the batch reduction keeps the last entry per column: in fragment.bulkImportMutex the loop over the input pairs stores every pair into the per-column map (forward loop: later entries overwrite earlier ones), or walks the input backwards and skips a pair only because its column is already in that map; no other condition may drop or skip an input pair before the map is updated")
	c13LastWriter(p, r)
	r.NotDecided = "which row a column ends on when the same batch is split across requests; value-level equality with a sequential model"
	pk := p.Pkg("")
	if pk == nil {
		r.Undecide("R1", "package pilosa", "", "not loaded")
		return
	}
	info := pk.TypesInfo
	isMutexVecNil := func(cond ast.Expr) (neq bool, ok bool) {
		be, isBin := ast.Unparen(cond).(*ast.BinaryExpr)
		if !isBin || (be.Op != token.NEQ && be.Op != token.EQL) {
			return false, false
		}
		if _, isF := core.FieldSel(info, be.X, core.ModPath, "fragment", "mutexVector"); !isF {
			return false, false
		}
		if id, isID := ast.Unparen(be.Y).(*ast.Ident); !isID || id.Name != "nil" {
			return false, false
		}
		return be.Op == token.NEQ, true
	}
	isCall := func(n ast.Node, name string) bool {
		c, ok := n.(*ast.CallExpr)
		if !ok {
			return false
		}
		fn := core.CalleeOf(info, c)
		return fn != nil && fn.Name() == name && recvNamed(fn, "fragment")
	}
	// generic path rule: at each sink call, the state must carry "guarded"
	check := func(fname, guardFn string, sinks []string) {
		fd := core.FuncDecl(pk, "fragment", fname)
		construct := "(*fragment)." + fname
		if fd == nil {
			r.Undecide("R1", construct, "", "not found")
			return
		}
		const guarded flow.State = 1
		bad := token.NoPos
		nSink := 0
		h := flow.Hooks{Info: info}
		h.Atom = func(n ast.Node, s flow.State) []flow.State {
			if isCall(n, guardFn) {
				return []flow.State{s | guarded}
			}
			for _, sk := range sinks {
				if isCall(n, sk) {
					nSink++
					if s&guarded == 0 && !bad.IsValid() {
						bad = n.Pos()
					}
				}
			}
			return []flow.State{s}
		}
		h.Refine = func(cond ast.Expr, taken bool, s flow.State) (flow.State, bool) {
			if neq, ok := isMutexVecNil(cond); ok {
				if neq != taken { // mutexVector == nil on this branch
					return s | guarded, true
				}
				return s, true
			}
			// a clear-only import cannot create a second value
			if sel, ok := ast.Unparen(cond).(*ast.SelectorExpr); ok && sel.Sel.Name == "Clear" && taken {
				return s | guarded, true
			}
			if ue, ok := ast.Unparen(cond).(*ast.UnaryExpr); ok && ue.Op == token.NOT {
				if sel, ok := ast.Unparen(ue.X).(*ast.SelectorExpr); ok && sel.Sel.Name == "Clear" && !taken {
					return s | guarded, true
				}
			}
			return s, true
		}
		it := flow.Run(h, fd.Body, 0)
		switch {
		case it.Unsupported != "":
			r.Undecide("R1", construct, p.Pos(fd.Pos()), it.Unsupported)
		case nSink == 0:
			r.Undecide("R1", construct, p.Pos(fd.Pos()), "no call to "+strings.Join(sinks, "/")+" found: the rule's slots no longer match")
		case bad.IsValid():
			r.Violate("R1", construct, p.Pos(bad), "a path reaches the raw bit setter without passing "+guardFn+" and without knowing the fragment has no mutex vector: on a mutex or bool field the column keeps its previous row as well")
		default:
			r.HoldAt("R1", construct, p.Pos(fd.Pos()), "every path to the raw setter passes "+guardFn+" or the no-vector test")
		}
	}
	check("setBit", "handleMutex", []string{"unprotectedSetBit"})
	check("bulkImport", "bulkImportMutex", []string{"bulkImportStandard"})
	// handleMutex really clears the other row
	if fd := core.FuncDecl(pk, "fragment", "handleMutex"); fd != nil {
		clears, gets := false, false
		ast.Inspect(fd.Body, func(n ast.Node) bool {
			if isCall(n, "unprotectedClearBit") {
				clears = true
			}
			if c, ok := n.(*ast.CallExpr); ok {
				if fn := core.CalleeOf(info, c); fn != nil && fn.Name() == "Get" {
					gets = true
				}
			}
			return true
		})
		r.Check(clears && gets, "R1", "(*fragment).handleMutex", p.Pos(fd.Pos()), "looks the column's current row up and clears it", "handleMutex no longer looks up and clears the column's existing row")
	}
	// who calls the raw setter
	callers := map[string]token.Pos{}
	for _, fd := range core.AllFuncDecls(pk) {
		if fd.Body == nil {
			continue
		}
		ast.Inspect(fd.Body, func(n ast.Node) bool {
			if isCall(n, "unprotectedSetBit") {
				callers[core.FuncName(fd)] = n.Pos()
			}
			return true
		})
	}
	var names []string
	for n := range callers {
		names = append(names, n)
	}
	sort.Strings(names)
	for _, n := range names {
		if why, ok := c13RawSetters[n]; ok {
			r.HoldAt("R1", n+" calls unprotectedSetBit", p.Pos(callers[n]), "allowed: "+why)
		} else {
			r.Violate("R1", n+" calls unprotectedSetBit", p.Pos(callers[n]), "sets a bit through the raw setter from a function outside the guarded set: on a mutex or bool fragment the one-value-per-column rule is bypassed")
		}
	}
	r.Floor("C13/R1 callers of unprotectedSetBit", len(names), 3)

	// ---- R2
	typeGuard := func(fd *ast.FuncDecl, sink func(n ast.Node) bool, what string) {
		construct := core.FuncName(fd)
		const ok1 flow.State = 1
		bad := token.NoPos
		seenSink := false
		h := flow.Hooks{Info: info}
		mentionsSetType := func(cond ast.Expr) bool {
			found := false
			ast.Inspect(cond, func(n ast.Node) bool {
				if id, ok := n.(*ast.Ident); ok && (id.Name == "FieldTypeSet" || id.Name == "FieldTypeTime") {
					found = true
				}
				return true
			})
			return found
		}
		h.Atom = func(n ast.Node, s flow.State) []flow.State {
			if sink(n) {
				seenSink = true
				if s&ok1 == 0 && !bad.IsValid() {
					bad = n.Pos()
				}
			}
			return []flow.State{s}
		}
		h.Refine = func(cond ast.Expr, taken bool, s flow.State) (flow.State, bool) {
			// `field.Type() != FieldTypeSet [&& != FieldTypeTime]` — the false branch knows the type is allowed
			if be, ok := ast.Unparen(cond).(*ast.BinaryExpr); ok && be.Op == token.NEQ && mentionsSetType(cond) && !taken {
				return s | ok1, true
			}
			if be, ok := ast.Unparen(cond).(*ast.BinaryExpr); ok && be.Op == token.EQL && mentionsSetType(cond) && taken {
				return s | ok1, true
			}
			return s, true
		}
		it := flow.Run(h, fd.Body, 0)
		switch {
		case it.Unsupported != "":
			r.Undecide("R2", construct, p.Pos(fd.Pos()), it.Unsupported)
		case !seenSink:
			r.Undecide("R2", construct, p.Pos(fd.Pos()), "the "+what+" hand-off was not found: the rule's slots no longer match")
		case bad.IsValid():
			r.Violate("R2", construct, p.Pos(bad), "the "+what+" is reached on a path that has not established the field is a set (or time) field: a mutex or bool field receives bits without its one-value-per-column guard")
		default:
			r.HoldAt("R2", construct, p.Pos(fd.Pos()), "refuses non-set fields before the "+what)
		}
	}
	if fd := core.FuncDecl(pk, "API", "ImportRoaring"); fd != nil {
		typeGuard(fd, func(n ast.Node) bool {
			// hand-off to the import workers or to other nodes
			if sd, ok := n.(*ast.SendStmt); ok {
				if _, ok := core.FieldSel(info, sd.Chan, core.ModPath, "API", "importWork"); ok {
					return true
				}
			}
			if _, ok := n.(*ast.GoStmt); ok {
				return true
			}
			return false
		}, "hand-off to the import workers")
	} else {
		r.Undecide("R2", "(*API).ImportRoaring", "", "not found")
	}
	if fd := core.FuncDecl(pk, "executor", "executeSetRow"); fd != nil {
		typeGuard(fd, func(n ast.Node) bool {
			c, ok := n.(*ast.CallExpr)
			if !ok {
				return false
			}
			fn := core.CalleeOf(info, c)
			return fn != nil && fn.Name() == "mapReduce"
		}, "shard fan-out")
	} else {
		r.Undecide("R2", "(*executor).executeSetRow", "", "not found")
	}
	// who-may-call Field.importRoaring / fragment.setRow / view.setRow
	who := func(method, recv string, allowed map[string]bool) {
		n := 0
		for _, fd := range core.AllFuncDecls(pk) {
			if fd.Body == nil {
				continue
			}
			ast.Inspect(fd.Body, func(nd ast.Node) bool {
				c, ok := nd.(*ast.CallExpr)
				if !ok {
					return true
				}
				fn := core.CalleeOf(info, c)
				if fn == nil || fn.Name() != method || !recvNamed(fn, recv) {
					return true
				}
				n++
				name := core.FuncName(fd)
				r.Check(allowed[name], "R2", name+" calls "+recv+"."+method, p.Pos(c.Pos()), "call site is on a type-guarded path", "a new caller reaches "+recv+"."+method+" without the set-field type guard")
				return true
			})
		}
		r.Floor("C13/R2 call sites of "+recv+"."+method, n, 1)
	}
	who("importRoaring", "Field", map[string]bool{"importWorker": true})
	who("setRow", "fragment", map[string]bool{"(*executor).executeSetRowShard": true})

	// ---- R3
	if fd := core.FuncDecl(pk, "view", "newFragment"); fd != nil {
		types_ := map[string]bool{}
		ast.Inspect(fd.Body, func(n ast.Node) bool {
			ifs, ok := n.(*ast.IfStmt)
			if !ok {
				return true
			}
			be, ok := ast.Unparen(ifs.Cond).(*ast.BinaryExpr)
			if !ok || be.Op != token.EQL {
				return true
			}
			id, ok := ast.Unparen(be.Y).(*ast.Ident)
			if !ok {
				return true
			}
			assigns := false
			for _, st := range ifs.Body.List {
				if as, ok := st.(*ast.AssignStmt); ok && len(as.Lhs) == 1 {
					if _, ok := core.FieldSel(info, as.Lhs[0], core.ModPath, "fragment", "mutexVector"); ok {
						assigns = true
					}
				}
			}
			if assigns {
				types_[id.Name] = true
			}
			return true
		})
		r.Check(types_["FieldTypeMutex"] && types_["FieldTypeBool"] && len(types_) == 2, "R3", "(*view).newFragment", p.Pos(fd.Pos()), "mutex vector installed for mutex and bool fields", "the mutex vector is not installed for exactly the field types mutex and bool: such a field's fragments lose the one-value-per-column guard")
	} else {
		r.Undecide("R3", "(*view).newFragment", "", "not found")
	}
	if fd := core.FuncDecl(pk, "Field", "Import"); fd != nil {
		ok := false
		ast.Inspect(fd.Body, func(n ast.Node) bool {
			ifs, isIf := n.(*ast.IfStmt)
			if !isIf {
				return true
			}
			s := types.ExprString(ifs.Cond)
			if strings.Contains(s, "FieldTypeBool") && strings.Contains(s, "> 1") {
				for _, st := range ifs.Body.List {
					if _, isRet := st.(*ast.ReturnStmt); isRet {
						ok = true
					}
				}
			}
			return true
		})
		r.Check(ok, "R3", "(*Field).Import bool rows", p.Pos(fd.Pos()), "bool imports with a row above 1 are refused", "Field.Import no longer refuses bool rows other than 0 and 1")
	}
}

// c13LastWriter: R4.
func c13LastWriter(p *core.Program, r *core.Report) {
	pk := p.Pkg("")
	info := pk.TypesInfo
	fd := core.FuncDecl(pk, "fragment", "bulkImportMutex")
	construct := "(*fragment).bulkImportMutex batch reduction"
	if fd == nil {
		r.Undecide("R4", construct, "", "not found")
		return
	}
	// the input slices
	var inputs []types.Object
	for _, fld := range fd.Type.Params.List {
		for _, nm := range fld.Names {
			if o := info.Defs[nm]; o != nil {
				if _, ok := o.Type().Underlying().(*types.Slice); ok {
					inputs = append(inputs, o)
				}
			}
		}
	}
	isInput := func(e ast.Expr) bool {
		id, ok := ast.Unparen(e).(*ast.Ident)
		if !ok {
			return false
		}
		for _, o := range inputs {
			if info.ObjectOf(id) == o {
				return true
			}
		}
		return false
	}
	// the first loop over the input: `for i := range rowIDs`, `for i, x := range`, or a counted loop indexing them
	var loopBody *ast.BlockStmt
	descending := false
	for _, st := range fd.Body.List {
		switch x := st.(type) {
		case *ast.RangeStmt:
			if isInput(x.X) && loopBody == nil {
				loopBody = x.Body
			}
		case *ast.ForStmt:
			if loopBody == nil {
				uses := false
				ast.Inspect(x.Body, func(n ast.Node) bool {
					if ix, ok := n.(*ast.IndexExpr); ok && isInput(ix.X) {
						uses = true
					}
					return true
				})
				if uses {
					loopBody = x.Body
					if inc, ok := x.Post.(*ast.IncDecStmt); ok && inc.Tok == token.DEC {
						descending = true
					}
				}
			}
		}
		if loopBody != nil {
			break
		}
	}
	if loopBody == nil {
		r.Violate("R4", construct, p.Pos(fd.Pos()), "no loop over the input pairs at the top of the function")
		return
	}
	// the per-column map: a local map[uint64]T assigned by index in the loop
	var colMap types.Object
	ast.Inspect(loopBody, func(n ast.Node) bool {
		as, ok := n.(*ast.AssignStmt)
		if !ok || colMap != nil {
			return true
		}
		for _, l := range as.Lhs {
			if ix, ok := ast.Unparen(l).(*ast.IndexExpr); ok {
				if id, ok := ast.Unparen(ix.X).(*ast.Ident); ok {
					if o := info.ObjectOf(id); o != nil {
						if m, ok := o.Type().Underlying().(*types.Map); ok {
							if b, ok := m.Elem().Underlying().(*types.Basic); ok && b.Kind() == types.Uint64 {
								colMap = o
							}
						}
					}
				}
			}
		}
		return true
	})
	if colMap == nil {
		r.Violate("R4", construct, p.Pos(loopBody.Pos()), "the loop over the input pairs does not record them in a per-column map")
		return
	}
	const (
		bStored flow.State = 1 << iota
		bSeen              // skipping because the column is already in the map (backward walk)
		bErr
	)
	var bad []string
	h := flow.Hooks{Info: info}
	h.Atom = func(n ast.Node, s flow.State) []flow.State {
		if as, ok := n.(*ast.AssignStmt); ok {
			for _, l := range as.Lhs {
				if ix, ok := ast.Unparen(l).(*ast.IndexExpr); ok {
					if id, ok := ast.Unparen(ix.X).(*ast.Ident); ok && info.ObjectOf(id) == colMap {
						return []flow.State{s | bStored}
					}
				}
			}
		}
		return []flow.State{s}
	}
	// `if _, ok := colMap[col]; ok { continue }`: the ok variable of a comma-ok lookup in the map
	okVars := map[types.Object]bool{}
	ast.Inspect(loopBody, func(n ast.Node) bool {
		if as, ok := n.(*ast.AssignStmt); ok && len(as.Lhs) == 2 && len(as.Rhs) == 1 {
			if ix, ok := ast.Unparen(as.Rhs[0]).(*ast.IndexExpr); ok {
				if id, ok := ast.Unparen(ix.X).(*ast.Ident); ok && info.ObjectOf(id) == colMap {
					if okId, ok := as.Lhs[1].(*ast.Ident); ok {
						okVars[info.ObjectOf(okId)] = true
					}
				}
			}
		}
		return true
	})
	h.Refine = func(cond ast.Expr, taken bool, s flow.State) (flow.State, bool) {
		c := ast.Unparen(cond)
		if o, neq, ok := flow.IsErrNilTest(info, c); ok && o != nil {
			if neq == taken {
				return s | bErr, true
			}
			return s &^ bErr, true
		}
		if id, ok := c.(*ast.Ident); ok && okVars[info.ObjectOf(id)] && taken && descending {
			return s | bSeen, true
		}
		return s, true
	}
	h.Return = func(ret *ast.ReturnStmt, s flow.State) {
		// falling off the end of the body (ret == nil) or `continue` are iteration ends
		if s&(bStored|bSeen|bErr) == 0 {
			pos := loopBody.End()
			if ret != nil {
				pos = ret.Pos()
			}
			bad = append(bad, p.Pos(pos))
		}
	}
	// run the body as a function of its own: `continue` ends an iteration
	body := &ast.BlockStmt{List: []ast.Stmt{&ast.ForStmt{Body: loopBody}}}
	_ = body
	it := flow.Run(flow.Hooks{Info: info, Atom: h.Atom, Refine: h.Refine, Return: h.Return}, c13IterationBody(loopBody), 0)
	switch {
	case it.Unsupported != "":
		r.Undecide("R4", construct, p.Pos(loopBody.Pos()), it.Unsupported)
	case len(bad) > 0:
		r.Violate("R4", construct, p.Pos(loopBody.Pos()), "an input pair can leave the reduction loop without being recorded in the per-column map (iteration ends at "+strings.Join(dedupe(bad), ", ")+"): an earlier pair for the same column then wins over it, so the column does not end on the row of the last write")
	default:
		how := "every pair is stored (later entries overwrite earlier ones)"
		if descending {
			how = "backward walk; a pair is skipped only when its column was already taken"
		}
		r.HoldAt("R4", construct, p.Pos(loopBody.Pos()), how)
	}
}

// c13IterationBody rewrites `continue` (of the loop itself) into `return` so
// that one iteration can be interpreted as a function body.
func c13IterationBody(body *ast.BlockStmt) *ast.BlockStmt {
	var rw func(st ast.Stmt, inner bool) ast.Stmt
	rwList := func(l []ast.Stmt, inner bool) []ast.Stmt {
		out := make([]ast.Stmt, len(l))
		for i, s := range l {
			out[i] = rw(s, inner)
		}
		return out
	}
	rw = func(st ast.Stmt, inner bool) ast.Stmt {
		switch x := st.(type) {
		case *ast.BranchStmt:
			if x.Tok == token.CONTINUE && x.Label == nil && !inner {
				return &ast.ReturnStmt{Return: x.Pos()}
			}
		case *ast.BlockStmt:
			return &ast.BlockStmt{Lbrace: x.Lbrace, List: rwList(x.List, inner), Rbrace: x.Rbrace}
		case *ast.IfStmt:
			n := *x
			n.Body = rw(x.Body, inner).(*ast.BlockStmt)
			if x.Else != nil {
				n.Else = rw(x.Else, inner)
			}
			return &n
		case *ast.ForStmt:
			n := *x
			n.Body = rw(x.Body, true).(*ast.BlockStmt)
			return &n
		case *ast.RangeStmt:
			n := *x
			n.Body = rw(x.Body, true).(*ast.BlockStmt)
			return &n
		case *ast.SwitchStmt:
			n := *x
			nb := &ast.BlockStmt{}
			for _, c := range x.Body.List {
				cc := *c.(*ast.CaseClause)
				cc.Body = rwList(cc.Body, inner)
				nb.List = append(nb.List, &cc)
			}
			n.Body = nb
			return &n
		}
		return st
	}
	return rw(body, false).(*ast.BlockStmt)
}
