package props

import (
	"fmt"
	"go/ast"
	"go/constant"
	"go/token"
	"go/types"
	"regexp"
	"sort"
	"strings"

	"verif/checker/core"
	"verif/checker/ord"

	"golang.org/x/tools/go/packages"
)

func init() { register("C01", c01) }

var encNames = []string{"Array", "Bitmap", "Run"}

// encDispatch is a tiny abstract interpreter: every *Container-typed variable
// carries one of the three encodings; isArray/isRun/isBitmap tests and
// switches on typ()/typeID are decided from it, any other condition explores
// both branches. It records the calls in every reachable return statement.
type encDispatch struct {
	info     *types.Info
	consts   map[string]string // containerArray -> "Array"
	terminal []encTerminal
	bad      string
}

type encTerminal struct {
	ret  *ast.ReturnStmt
	env  map[types.Object]string
	fell bool
}

func (d *encDispatch) encOf(e ast.Expr, env map[types.Object]string) string {
	if id, ok := ast.Unparen(e).(*ast.Ident); ok {
		return env[d.info.ObjectOf(id)]
	}
	return ""
}

// cond returns 1 true, 0 false, -1 unknown
func (d *encDispatch) cond(e ast.Expr, env map[types.Object]string) int {
	switch x := ast.Unparen(e).(type) {
	case *ast.CallExpr:
		if sel, ok := ast.Unparen(x.Fun).(*ast.SelectorExpr); ok {
			want := ""
			switch sel.Sel.Name {
			case "isArray":
				want = "Array"
			case "isBitmap":
				want = "Bitmap"
			case "isRun":
				want = "Run"
			}
			if want != "" {
				if enc := d.encOf(sel.X, env); enc != "" {
					if enc == want {
						return 1
					}
					return 0
				}
			}
		}
	case *ast.BinaryExpr:
		switch x.Op {
		case token.LAND:
			a, b := d.cond(x.X, env), d.cond(x.Y, env)
			if a == 0 || b == 0 {
				return 0
			}
			if a == 1 && b == 1 {
				return 1
			}
			return -1
		case token.LOR:
			a, b := d.cond(x.X, env), d.cond(x.Y, env)
			if a == 1 || b == 1 {
				return 1
			}
			if a == 0 && b == 0 {
				return 0
			}
			return -1
		case token.EQL, token.NEQ:
			// c.typ() == containerX / c.typeID == containerX
			enc, cst := d.typExpr(x.X, env), d.constEnc(x.Y)
			if enc == "" || cst == "" {
				enc, cst = d.typExpr(x.Y, env), d.constEnc(x.X)
			}
			if enc != "" && cst != "" {
				if (enc == cst) == (x.Op == token.EQL) {
					return 1
				}
				return 0
			}
		}
	case *ast.UnaryExpr:
		if x.Op == token.NOT {
			if c := d.cond(x.X, env); c >= 0 {
				return 1 - c
			}
		}
	case *ast.Ident:
		if c, ok := d.info.ObjectOf(x).(*types.Const); ok && c.Val().Kind() == constant.Bool {
			if constant.BoolVal(c.Val()) {
				return 1
			}
			return 0
		}
	}
	return -1
}

// typExpr: X.typ() or X.typeID -> encoding of X
func (d *encDispatch) typExpr(e ast.Expr, env map[types.Object]string) string {
	switch x := ast.Unparen(e).(type) {
	case *ast.CallExpr:
		if sel, ok := ast.Unparen(x.Fun).(*ast.SelectorExpr); ok && sel.Sel.Name == "typ" {
			return d.encOf(sel.X, env)
		}
	case *ast.SelectorExpr:
		if x.Sel.Name == "typeID" {
			return d.encOf(x.X, env)
		}
	}
	return ""
}

func (d *encDispatch) constEnc(e ast.Expr) string {
	if id, ok := ast.Unparen(e).(*ast.Ident); ok {
		return d.consts[id.Name]
	}
	return ""
}

var convRe = regexp.MustCompile(`^(array|bitmap|run)To(Array|Bitmap|Run)$`)

func (d *encDispatch) run(list []ast.Stmt, env map[types.Object]string) (fell []map[types.Object]string) {
	cur := []map[types.Object]string{env}
	for _, st := range list {
		var next []map[types.Object]string
		for _, e := range cur {
			next = append(next, d.stmt(st, e)...)
		}
		cur = next
		if len(cur) == 0 {
			return nil
		}
	}
	return cur
}

func cloneEnc(m map[types.Object]string) map[types.Object]string {
	o := make(map[types.Object]string, len(m))
	for k, v := range m {
		o[k] = v
	}
	return o
}

func (d *encDispatch) stmt(st ast.Stmt, env map[types.Object]string) []map[types.Object]string {
	switch x := st.(type) {
	case *ast.BlockStmt:
		return d.run(x.List, env)
	case *ast.ReturnStmt:
		d.terminal = append(d.terminal, encTerminal{ret: x, env: env})
		return nil
	case *ast.IfStmt:
		if x.Init != nil {
			var out []map[types.Object]string
			for _, e := range d.stmt(x.Init, env) {
				out = append(out, d.stmt(&ast.IfStmt{Cond: x.Cond, Body: x.Body, Else: x.Else}, e)...)
			}
			return out
		}
		c := d.cond(x.Cond, env)
		var out []map[types.Object]string
		if c != 0 {
			out = append(out, d.run(x.Body.List, cloneEnc(env))...)
		}
		if c != 1 {
			if x.Else != nil {
				out = append(out, d.stmt(x.Else, cloneEnc(env))...)
			} else {
				out = append(out, env)
			}
		}
		return out
	case *ast.SwitchStmt:
		if x.Init != nil || x.Tag == nil {
			// tagless switch: treat clauses as if-chain
			if x.Tag == nil && x.Init == nil {
				var out []map[types.Object]string
				rest := true
				for _, c := range x.Body.List {
					cc := c.(*ast.CaseClause)
					if cc.List == nil {
						continue
					}
					v := -1
					if len(cc.List) == 1 {
						v = d.cond(cc.List[0], env)
					}
					if v != 0 && rest {
						out = append(out, d.run(cc.Body, cloneEnc(env))...)
					}
					if v == 1 {
						rest = false
					}
				}
				if rest {
					hasDef := false
					for _, c := range x.Body.List {
						if cc := c.(*ast.CaseClause); cc.List == nil {
							hasDef = true
							out = append(out, d.run(cc.Body, cloneEnc(env))...)
						}
					}
					if !hasDef {
						out = append(out, env)
					}
				}
				return out
			}
			d.bad = "switch with init"
			return []map[types.Object]string{env}
		}
		enc := d.typExpr(x.Tag, env)
		var out []map[types.Object]string
		matched := false
		var def *ast.CaseClause
		for _, c := range x.Body.List {
			cc := c.(*ast.CaseClause)
			if cc.List == nil {
				def = cc
				continue
			}
			for _, e := range cc.List {
				ce := d.constEnc(e)
				if enc == "" || ce == "" {
					// unknown tag: explore
					out = append(out, d.run(cc.Body, cloneEnc(env))...)
					break
				}
				if ce == enc {
					matched = true
					out = append(out, d.run(cc.Body, cloneEnc(env))...)
					break
				}
			}
		}
		if !matched {
			if def != nil {
				out = append(out, d.run(def.Body, cloneEnc(env))...)
			} else {
				out = append(out, env)
			}
		}
		return out
	case *ast.AssignStmt:
		// c = c.arrayToBitmap()
		ne := cloneEnc(env)
		if len(x.Lhs) == len(x.Rhs) {
			for i, l := range x.Lhs {
				id, ok := l.(*ast.Ident)
				if !ok {
					continue
				}
				obj := d.info.ObjectOf(id)
				if call, ok := ast.Unparen(x.Rhs[i]).(*ast.CallExpr); ok {
					if sel, ok := ast.Unparen(call.Fun).(*ast.SelectorExpr); ok {
						if m := convRe.FindStringSubmatch(sel.Sel.Name); m != nil {
							ne[obj] = m[2]
							continue
						}
					}
				}
				if _, had := ne[obj]; had {
					if rid, ok := ast.Unparen(x.Rhs[i]).(*ast.Ident); ok {
						if enc, ok := env[d.info.ObjectOf(rid)]; ok {
							ne[obj] = enc
							continue
						}
					}
					delete(ne, obj)
				}
			}
		}
		return []map[types.Object]string{ne}
	case *ast.ExprStmt, *ast.DeclStmt, *ast.IncDecStmt, *ast.EmptyStmt, *ast.DeferStmt:
		if es, ok := st.(*ast.ExprStmt); ok {
			if call, ok := es.X.(*ast.CallExpr); ok && core.BuiltinName(d.info, call) == "panic" {
				return nil
			}
		}
		return []map[types.Object]string{env}
	case *ast.ForStmt, *ast.RangeStmt:
		return []map[types.Object]string{env} // loops do not occur in dispatchers before the dispatch
	}
	d.bad = fmt.Sprintf("statement %T", st)
	return []map[types.Object]string{env}
}

var kernelSuffix = regexp.MustCompile(`((?:Array|Bitmap|Run){1,2})(?:InPlace)?$`)

func splitEncs(s string) []string {
	var out []string
	for len(s) > 0 {
		ok := false
		for _, e := range encNames {
			if strings.HasPrefix(s, e) {
				out = append(out, e)
				s = s[len(e):]
				ok = true
				break
			}
		}
		if !ok {
			return nil
		}
	}
	return out
}

func c01(p *core.Program, r *core.Report) {
	r.Rule("R1", "encoding-dispatch exhaustiveness: every function of package roaring that dispatches on the encodings of two containers is abstractly executed for all 3x3 encoding pairs; on every path that is not an operand-count shortcut it must reach a kernel whose name suffix (ArrayRun, BitmapBitmap, ...) matches the encodings of the arguments in the order passed (after any xToY conversion); it may not fall through to a default. Functions dispatching on one container must cover all three encodings (if/else chains end in else or test all three; switches on the type byte cover all three constants or have a default)")
	r.Rule("R4", "word stores in run loops: in a loop of package roaring that works on run bounds and both stores (=) and accumulates (|=) into words of the same bitmap, a plain store is reached, for every ordering of the word's first value W, its last value E = W+63 and the run's bounds, only when W >= run.start and E <= run.last (the word lies wholly inside the run); any other word may already hold bits of the previous run")
	r.Rule("R5", "counts deferred by an in-place union are not trusted: same obligation as C02-R5 -- every caller of Container.unionInPlace recounts before the result's N() is read or the function returns, and while the recount is deferred to the end (Containers.Repair) no condition takes the N() of a container loaded from the collection for an upper bound (N == 0, N < k): a stale count is a lower bound only")
	c02CountRepaired(p, r)
	r.Rule("R6", "the carry is conserved: in a loop of package roaring that carries the second result of a shift kernel into the next iteration through a bool flag (Bitmap.Shift), every path of an iteration entered with the flag set applies Container.add(0) to the container being built, or puts a container at <key>+1, before the flag is reassigned")
	c01CarryIsConserved(p, r)
	r.Rule("R3", "interval-case coverage: Container.runCountRange is abstractly executed for every weak ordering of {iv.start, iv.last, start, end} (iv.start <= iv.last, start <= end); whenever the run [iv.start, iv.last] overlaps [start, end) the iteration must add to the count or return")
	r.NotDecided = "that any kernel computes the right set or count for every input; iterator Seek/Next, Max/Min, Flip, OffsetRange arithmetic; array/bitmap/run conversion thresholds"
	rp := p.Pkg("roaring")
	if rp == nil {
		r.Undecide("R1", "package roaring", "", "not loaded")
		return
	}
	info := rp.TypesInfo
	consts := map[string]string{"containerArray": "Array", "containerBitmap": "Bitmap", "containerRun": "Run"}
	for k := range consts {
		if _, ok := rp.Types.Scope().Lookup(k).(*types.Const); !ok {
			r.Undecide("R1", "constant "+k, "", "not found")
			return
		}
	}
	isContPtr := func(t types.Type) bool {
		_, isPtr := t.(*types.Pointer)
		return isPtr && core.IsNamed(t, roaringPath, "Container")
	}
	nBinary, nUnary := 0, 0
	for _, fd := range core.AllFuncDecls(rp) {
		if fd.Body == nil {
			continue
		}
		obj, _ := info.Defs[fd.Name].(*types.Func)
		if obj == nil {
			continue
		}
		sig := obj.Type().(*types.Signature)
		var ops []types.Object
		if sig.Recv() != nil && isContPtr(sig.Recv().Type()) && len(fd.Recv.List[0].Names) > 0 {
			ops = append(ops, info.Defs[fd.Recv.List[0].Names[0]])
		}
		for i := 0; i < sig.Params().Len(); i++ {
			if isContPtr(sig.Params().At(i).Type()) {
				ops = append(ops, sig.Params().At(i))
			}
		}
		// which operands does the body test?
		tested := map[types.Object]map[string]bool{}
		ast.Inspect(fd.Body, func(n ast.Node) bool {
			switch x := n.(type) {
			case *ast.CallExpr:
				if sel, ok := ast.Unparen(x.Fun).(*ast.SelectorExpr); ok {
					name := sel.Sel.Name
					if name == "isArray" || name == "isBitmap" || name == "isRun" || name == "typ" {
						if id, ok := ast.Unparen(sel.X).(*ast.Ident); ok {
							o := info.ObjectOf(id)
							if tested[o] == nil {
								tested[o] = map[string]bool{}
							}
							tested[o][name] = true
						}
					}
				}
			case *ast.SelectorExpr:
				if x.Sel.Name == "typeID" {
					if id, ok := ast.Unparen(x.X).(*ast.Ident); ok {
						o := info.ObjectOf(id)
						if tested[o] == nil {
							tested[o] = map[string]bool{}
						}
						tested[o]["typ"] = true
					}
				}
			}
			return true
		})
		var dispatchOn []types.Object
		for _, o := range ops {
			if len(tested[o]) > 0 {
				dispatchOn = append(dispatchOn, o)
			}
		}
		switch len(dispatchOn) {
		case 2:
			// a binary dispatcher only if it calls per-encoding-pair kernels
			callsPairKernel := false
			ast.Inspect(fd.Body, func(n ast.Node) bool {
				if c, ok := n.(*ast.CallExpr); ok {
					if fn := core.CalleeOf(info, c); fn != nil {
						if m := kernelSuffix.FindStringSubmatch(fn.Name()); m != nil && len(splitEncs(m[1])) == 2 {
							callsPairKernel = true
						}
					}
				}
				return true
			})
			if !callsPairKernel {
				continue
			}
			nBinary++
			c01Binary(p, r, rp, fd, dispatchOn, consts)
		case 1:
			nUnary++
			c01Unary(p, r, info, fd, dispatchOn[0], consts)
		}
	}
	r.Floor("C01/R1 binary encoding dispatchers", nBinary, 6)
	r.Floor("C01/R1 unary encoding dispatchers", nUnary, 12)

	// ---- R3
	c01R3(p, r, rp)
	c01WordStores(p, r, rp)
}

func c01Binary(p *core.Program, r *core.Report, rp *packages.Package, fd *ast.FuncDecl, ops []types.Object, consts map[string]string) {
	info := rp.TypesInfo
	for _, ea := range encNames {
		for _, eb := range encNames {
			construct := fmt.Sprintf("%s (%s,%s)", core.FuncName(fd), ea, eb)
			d := &encDispatch{info: info, consts: consts}
			fell := d.run(fd.Body.List, map[types.Object]string{ops[0]: ea, ops[1]: eb})
			if d.bad != "" {
				r.Undecide("R1", construct, p.Pos(fd.Pos()), "dispatcher outside the interpretable subset: "+d.bad)
				continue
			}
			if len(fell) > 0 {
				r.Violate("R1", construct, p.Pos(fd.Pos()), "a path falls off the end of the dispatcher without reaching a kernel for this encoding pair")
				continue
			}
			reached, bad := 0, ""
			for _, t := range d.terminal {
				// kernel call in the return?
				var kc *ast.CallExpr
				for _, res := range t.ret.Results {
					ast.Inspect(res, func(n ast.Node) bool {
						if c, ok := n.(*ast.CallExpr); ok && kc == nil {
							if fn := core.CalleeOf(info, c); fn != nil {
								if m := kernelSuffix.FindStringSubmatch(fn.Name()); m != nil && len(splitEncs(m[1])) == 2 && len(c.Args) >= 2 {
									kc = c
								}
							}
						}
						return true
					})
				}
				if kc == nil {
					continue // shortcut return (empty/full operand) or fallback
				}
				reached++
				fn := core.CalleeOf(info, kc)
				encs := splitEncs(kernelSuffix.FindStringSubmatch(fn.Name())[1])
				for i := 0; i < 2; i++ {
					got := ""
					if id, ok := ast.Unparen(kc.Args[i]).(*ast.Ident); ok {
						got = t.env[info.ObjectOf(id)]
					}
					if got == "" {
						bad = fmt.Sprintf("%s: argument %d of %s is not a tracked operand", p.Pos(kc.Pos()), i+1, fn.Name())
					} else if got != encs[i] {
						bad = fmt.Sprintf("%s: %s is called with a %s container as argument %d (expects %s): the kernel reads the container's storage as the wrong encoding", p.Pos(kc.Pos()), fn.Name(), got, i+1, encs[i])
					}
				}
			}
			switch {
			case bad != "":
				r.Violate("R1", construct, p.Pos(fd.Pos()), bad)
			case reached == 0:
				// is there a return that hands back an operand unchanged after the shortcuts? find the last terminal
				r.Violate("R1", construct, p.Pos(fd.Pos()), "no per-encoding kernel is reached for this pair: the pair is handled by a shortcut or default only")
			default:
				r.HoldAt("R1", construct, p.Pos(fd.Pos()), "reaches a kernel whose suffix matches the argument encodings")
			}
		}
	}
}

func c01Unary(p *core.Program, r *core.Report, info *types.Info, fd *ast.FuncDecl, op types.Object, consts map[string]string) {
	// if/else-if chains on isX(op)
	bad := ""
	pos := fd.Pos()
	seenChain := map[*ast.IfStmt]bool{}
	ast.Inspect(fd.Body, func(n ast.Node) bool {
		ifs, ok := n.(*ast.IfStmt)
		if !ok || seenChain[ifs] {
			return true
		}
		// collect chain
		var tests []string
		hasElse := false
		cur := ifs
		pure := true
		for cur != nil {
			seenChain[cur] = true
			t := isEncTest(info, cur.Cond, op)
			if t == "" {
				pure = false
				break
			}
			tests = append(tests, t)
			switch e := cur.Else.(type) {
			case *ast.IfStmt:
				cur = e
			case *ast.BlockStmt:
				hasElse = true
				cur = nil
			default:
				cur = nil
			}
		}
		if !pure || len(tests) < 2 {
			return true
		}
		// what follows the chain counts as the third case if every tested branch returns
		allReturn := true
		cur = ifs
		for cur != nil {
			if n := len(cur.Body.List); n == 0 {
				allReturn = false
			} else if _, ok := cur.Body.List[n-1].(*ast.ReturnStmt); !ok {
				allReturn = false
			}
			nx, _ := cur.Else.(*ast.IfStmt)
			cur = nx
		}
		distinct := map[string]bool{}
		for _, t := range tests {
			distinct[t] = true
		}
		if len(distinct) < 3 && !hasElse && !allReturn {
			bad = "an if/else-if chain tests " + strings.Join(tests, ", ") + " and has no else: the remaining encoding is silently skipped"
			pos = ifs.Pos()
		}
		return true
	})
	ast.Inspect(fd.Body, func(n ast.Node) bool {
		sw, ok := n.(*ast.SwitchStmt)
		if !ok || sw.Tag == nil {
			return true
		}
		d := &encDispatch{info: info, consts: consts}
		if d.typExpr(sw.Tag, map[types.Object]string{op: "Array"}) == "" {
			return true
		}
		covered := map[string]bool{}
		hasDef := false
		for _, c := range sw.Body.List {
			cc := c.(*ast.CaseClause)
			if cc.List == nil {
				hasDef = true
			}
			for _, e := range cc.List {
				if ce := d.constEnc(e); ce != "" {
					covered[ce] = true
				}
			}
		}
		if len(covered) < 3 && !hasDef {
			var miss []string
			for _, e := range encNames {
				if !covered[e] {
					miss = append(miss, e)
				}
			}
			bad = "switch on the container type has no case for " + strings.Join(miss, ", ") + " and no default"
			pos = sw.Pos()
		}
		return true
	})
	construct := core.FuncName(fd)
	if bad != "" {
		r.Violate("R1", construct, p.Pos(pos), bad)
	} else {
		r.HoldAt("R1", construct, p.Pos(fd.Pos()), "covers all three encodings")
	}
}

func isEncTest(info *types.Info, cond ast.Expr, op types.Object) string {
	c, ok := ast.Unparen(cond).(*ast.CallExpr)
	if !ok {
		return ""
	}
	sel, ok := ast.Unparen(c.Fun).(*ast.SelectorExpr)
	if !ok {
		return ""
	}
	id, ok := ast.Unparen(sel.X).(*ast.Ident)
	if !ok || info.ObjectOf(id) != op {
		return ""
	}
	switch sel.Sel.Name {
	case "isArray", "isBitmap", "isRun":
		return sel.Sel.Name
	}
	return ""
}

func c01R3(p *core.Program, r *core.Report, rp *packages.Package) {
	info := rp.TypesInfo
	fd := core.FuncDecl(rp, "Container", "runCountRange")
	if fd == nil {
		r.Undecide("R3", "(*Container).runCountRange", "", "function not found")
		return
	}
	// locate `for _, iv := range <runs>` and the parameters
	var loop *ast.RangeStmt
	ast.Inspect(fd.Body, func(n ast.Node) bool {
		if rs, ok := n.(*ast.RangeStmt); ok && loop == nil {
			loop = rs
		}
		return true
	})
	if loop == nil || fd.Type.Params.NumFields() != 2 {
		r.Undecide("R3", "(*Container).runCountRange", p.Pos(fd.Pos()), "expected a range loop over the runs and (start, end) parameters")
		return
	}
	ivID, ok := loop.Value.(*ast.Ident)
	if !ok {
		r.Undecide("R3", "(*Container).runCountRange", p.Pos(loop.Pos()), "range value is not an identifier")
		return
	}
	ivObj := info.ObjectOf(ivID)
	var params []types.Object
	for _, f := range fd.Type.Params.List {
		for _, nm := range f.Names {
			params = append(params, info.ObjectOf(nm))
		}
	}
	startObj, endObj := params[0], params[1]
	term := func(e ast.Expr) string {
		switch x := ast.Unparen(e).(type) {
		case *ast.SelectorExpr:
			if id, ok := ast.Unparen(x.X).(*ast.Ident); ok && info.ObjectOf(id) == ivObj {
				return "iv." + x.Sel.Name
			}
		case *ast.Ident:
			switch info.ObjectOf(x) {
			case startObj:
				return "start"
			case endObj:
				return "end"
			}
		}
		return ""
	}
	terms := []string{"iv.start", "iv.last", "start", "end"}
	nOrd, nOverlap := 0, 0
	var firstBad string
	for _, o := range ord.Orderings(terms) {
		if o["iv.start"] > o["iv.last"] || o["start"] > o["end"] {
			continue
		}
		nOrd++
		overlap := o["iv.start"] < o["end"] && o["iv.last"] >= o["start"]
		if !overlap {
			continue
		}
		nOverlap++
		in := &ord.Interp{Info: info, O: o, Term: term}
		paths := in.Run(loop.Body.List, nil)
		if in.Unsupported != "" {
			r.Undecide("R3", "(*Container).runCountRange", p.Pos(loop.Pos()), in.Unsupported)
			return
		}
		for _, pa := range paths {
			if pa.End == ord.EndReturn || len(pa.Accum) > 0 {
				continue
			}
			if firstBad == "" {
				firstBad = fmt.Sprintf("for the ordering %s the run overlaps [start,end) but the iteration neither adds to the count nor returns (branches: %s)", o, strings.Join(pa.Trace, " "))
			}
		}
	}
	r.Count("orderings_enumerated", nOrd)
	r.Count("orderings_with_overlap", nOverlap)
	r.Floor("C01/R3 overlapping orderings of (iv.start, iv.last, start, end)", nOverlap, 10)
	if firstBad != "" {
		r.Violate("R3", "(*Container).runCountRange", p.Pos(loop.Pos()), firstBad)
	} else {
		r.HoldAt("R3", "(*Container).runCountRange", p.Pos(loop.Pos()), fmt.Sprintf("every one of %d overlapping orderings contributes", nOverlap))
	}
	_ = sort.Strings
}
