package props

import (
	"go/ast"
	"go/types"
	"sort"
	"strings"

	"verif/checker/core"
)

func init() { register("C08", c08) }

// functions that assign persisted options without saving because they run
// while the object is being opened/created and their caller saves (frozen)
var c08LoadOrInit = map[string]string{
	"(*Field).loadMeta":     "the loader itself",
	"(*Field).applyOptions": "applies options; Field.Open re-applies what loadMeta just read (nothing new to persist) and Index.createField saves right after applying the creation options (checked below)",
	"(*Index).loadMeta":     "the loader itself",
}

func c08(p *core.Program, r *core.Report) {
	r.Rule("R1", "persistence symmetry: for each persisted option struct the field sets agree across the struct declaration, its encoder and its loader — FieldOptions vs encodeFieldOptions vs Field.loadMeta; IndexOptions vs Index.saveMeta vs Index.loadMeta (a field missing on either side silently fails to survive a restart)")
	r.Rule("R2", "save after mutate: every function that assigns a persisted option of an open Field or Index (Field.options.*, Index.keys, Index.trackExistence) reaches saveMeta on every normal path before returning; functions that run during load/creation are a frozen list and their caller's save is checked")
	r.Rule("R4", "loaded as saved: in every loadMeta the decoded meta message is not rewritten before it is copied, and each option is assigned from the wire field of the same name (an option recomputed on load from other options cannot tell a stored zero from an absent field)")
	c08LoadedAsSaved(p, r)
	r.Rule("R5", "the op log stays attached: a fragment function that sets <fragment>.storage.OpWriter to nil has it attached again on every path on which it returns (a non-nil assignment, a call that reaches one, or the wait for the queued snapshot); one exempt function with reason")
	opWriterReattached(p, r, "R5")
	// R6: the key translation store keeps its next-id counter nowhere; it is rebuilt from the log on
	// open. The obligations are C24-R4's (the sequence is only ever raised, per pair), under this property.
	r.Rule("R6", "rebuilt counters (= C24-R4): an index's seq is written only by the pre-increment in the translate functions and by the raise-only update in applyEntry, applied to every pair of an entry")
	{
		tmp := core.NewReport("C24", r.Tier)
		c24(p, tmp)
		n6 := 0
		for _, o := range tmp.Obls {
			if o.Rule == "R4" {
				o.Rule = "R6"
				r.Obls = append(r.Obls, o)
				n6++
			}
		}
		r.Floor("C08/R6 sequence obligations taken over from C24-R4", n6, 2)
	}
	r.Rule("R3", "atomic replace: Field.saveMeta writes a temporary file and renames it over the meta file (write precedes rename on every path)")
	r.NotDecided = "the v1-upgrade reinterpretation of BitDepth == 0 (value dependent), translation and attribute store contents, fragment data (C05/C09 cover the log), time views"
	pk := p.Pkg("")
	if pk == nil {
		r.Undecide("R1", "package pilosa", "", "not loaded")
		return
	}
	info := pk.TypesInfo
	structFields := func(name string) map[string]bool {
		out := map[string]bool{}
		if tn, ok := pk.Types.Scope().Lookup(name).(*types.TypeName); ok {
			if st, ok := tn.Type().Underlying().(*types.Struct); ok {
				for i := 0; i < st.NumFields(); i++ {
					if st.Field(i).Exported() {
						out[st.Field(i).Name()] = true
					}
				}
			}
		}
		return out
	}
	cmp := func(what string, decl, enc, dec map[string]bool, encName, decName string) {
		var names []string
		for k := range decl {
			names = append(names, k)
		}
		sort.Strings(names)
		for _, f := range names {
			construct := what + "." + f
			switch {
			case !enc[f] && !dec[f]:
				r.Violate("R1", construct, "", "option is neither written by "+encName+" nor read by "+decName+": it is lost on restart")
			case !enc[f]:
				r.Violate("R1", construct, "", "option is read by "+decName+" but never written by "+encName+": it reverts to its zero value on restart")
			case !dec[f]:
				r.Violate("R1", construct, "", "option is written by "+encName+" but "+decName+" never restores it: it reverts to its default on restart")
			default:
				r.Hold("R1", construct, "written by "+encName+" and restored by "+decName)
			}
		}
	}
	// FieldOptions
	fo := structFields("FieldOptions")
	r.Floor("C08/R1 FieldOptions fields", len(fo), 10)
	enc, dec := map[string]bool{}, map[string]bool{}
	if fd := core.FuncDecl(pk, "", "encodeFieldOptions"); fd != nil {
		ast.Inspect(fd.Body, func(n ast.Node) bool {
			if sel, ok := n.(*ast.SelectorExpr); ok {
				if s, ok := info.Selections[sel]; ok && s.Kind() == types.FieldVal && core.IsNamed(s.Recv(), core.ModPath, "FieldOptions") {
					enc[sel.Sel.Name] = true
				}
			}
			return true
		})
	} else {
		r.Undecide("R1", "encodeFieldOptions", "", "not found")
	}
	if fd := core.FuncDecl(pk, "Field", "loadMeta"); fd != nil {
		ast.Inspect(fd.Body, func(n ast.Node) bool {
			if as, ok := n.(*ast.AssignStmt); ok {
				for _, l := range as.Lhs {
					if sel, ok := ast.Unparen(l).(*ast.SelectorExpr); ok {
						if s, ok := info.Selections[sel]; ok && s.Kind() == types.FieldVal && core.IsNamed(s.Recv(), core.ModPath, "FieldOptions") {
							dec[sel.Sel.Name] = true
						}
					}
				}
			}
			return true
		})
	} else {
		r.Undecide("R1", "(*Field).loadMeta", "", "not found")
	}
	cmp("FieldOptions", fo, enc, dec, "encodeFieldOptions", "Field.loadMeta")
	// saveMeta goes through the encoder
	if fd := core.FuncDecl(pk, "Field", "saveMeta"); fd != nil {
		uses := false
		ast.Inspect(fd.Body, func(n ast.Node) bool {
			if c, ok := n.(*ast.CallExpr); ok {
				if fn := core.CalleeOf(info, c); fn != nil && (fn.Name() == "encode" || fn.Name() == "encodeFieldOptions") {
					uses = true
				}
			}
			return true
		})
		r.Check(uses, "R1", "(*Field).saveMeta encoder", p.Pos(fd.Pos()), "serialises through FieldOptions.encode", "saveMeta no longer serialises the options through the shared encoder")
	}
	// IndexOptions: IndexMeta literal keys in saveMeta, assignments from pb.X in loadMeta
	io := structFields("IndexOptions")
	ienc, idec := map[string]bool{}, map[string]bool{}
	if fd := core.FuncDecl(pk, "Index", "saveMeta"); fd != nil {
		ast.Inspect(fd.Body, func(n ast.Node) bool {
			if cl, ok := n.(*ast.CompositeLit); ok && core.IsNamed(info.TypeOf(cl), internalPath, "IndexMeta") {
				for _, el := range cl.Elts {
					if kv, ok := el.(*ast.KeyValueExpr); ok {
						if id, ok := kv.Key.(*ast.Ident); ok {
							ienc[id.Name] = true
						}
					}
				}
			}
			return true
		})
	} else {
		r.Undecide("R1", "(*Index).saveMeta", "", "not found")
	}
	if fd := core.FuncDecl(pk, "Index", "loadMeta"); fd != nil {
		ast.Inspect(fd.Body, func(n ast.Node) bool {
			if as, ok := n.(*ast.AssignStmt); ok && len(as.Lhs) == len(as.Rhs) {
				for i, l := range as.Lhs {
					if _, isIdx := ast.Unparen(l).(*ast.SelectorExpr); !isIdx {
						continue
					}
					if sel, ok := ast.Unparen(as.Rhs[i]).(*ast.SelectorExpr); ok {
						if s, ok := info.Selections[sel]; ok && s.Kind() == types.FieldVal && core.IsNamed(s.Recv(), internalPath, "IndexMeta") {
							idec[sel.Sel.Name] = true
						}
					}
				}
			}
			return true
		})
	} else {
		r.Undecide("R1", "(*Index).loadMeta", "", "not found")
	}
	r.Floor("C08/R1 IndexOptions fields", len(io), 2)
	cmp("IndexOptions", io, ienc, idec, "Index.saveMeta", "Index.loadMeta")

	// ---- R2
	isOptAssign := func(n ast.Node) bool {
		as, ok := n.(*ast.AssignStmt)
		if !ok {
			return false
		}
		for _, l := range as.Lhs {
			sel, ok := ast.Unparen(l).(*ast.SelectorExpr)
			if !ok {
				continue
			}
			s, ok := info.Selections[sel]
			if !ok || s.Kind() != types.FieldVal {
				continue
			}
			// f.options.X
			if core.IsNamed(s.Recv(), core.ModPath, "FieldOptions") {
				if inner, ok := ast.Unparen(sel.X).(*ast.SelectorExpr); ok {
					if _, ok := core.FieldSel(info, inner, core.ModPath, "Field", "options"); ok {
						return true
					}
				}
			}
			// i.keys / i.trackExistence
			if core.IsNamed(s.Recv(), core.ModPath, "Index") && (sel.Sel.Name == "keys" || sel.Sel.Name == "trackExistence") {
				return true
			}
		}
		return false
	}
	isSave := callTo(info, core.ModPath, "", "") // placeholder replaced below
	isSave = func(n ast.Node) bool {
		c, ok := n.(*ast.CallExpr)
		if !ok {
			return false
		}
		fn := core.CalleeOf(info, c)
		return fn != nil && fn.Name() == "saveMeta" && (recvNamed(fn, "Field") || recvNamed(fn, "Index"))
	}
	nMut := 0
	for _, fd := range core.AllFuncDecls(pk) {
		if fd.Body == nil {
			continue
		}
		has := false
		ast.Inspect(fd.Body, func(n ast.Node) bool {
			if isOptAssign(n) {
				has = true
			}
			return true
		})
		if !has {
			continue
		}
		nMut++
		name := core.FuncName(fd)
		if why, ok := c08LoadOrInit[name]; ok {
			r.HoldAt("R2", name, p.Pos(fd.Pos()), "load/creation-time: "+why)
			continue
		}
		res := runPathRule(pathRuleSpec{info: info, fd: fd, trigger: isOptAssign, required: []func(ast.Node) bool{isSave}})
		switch {
		case res.unsupported != "":
			r.Undecide("R2", name, p.Pos(fd.Pos()), res.unsupported)
		case len(res.missing) > 0:
			r.Violate("R2", name, p.Pos(res.witnessPos.Pos()), "a persisted option is changed and the function returns normally without saving the meta file: the change is lost on restart (for bit depth: stored values are then decoded with the old depth)")
		default:
			r.HoldAt("R2", name, p.Pos(fd.Pos()), "saveMeta follows the change on every normal path")
		}
	}
	r.Floor("C08/R2 functions assigning persisted options", nMut, 4)
	// the per-field set of remotely available shards is persisted the same way
	{
		isShardsMut := func(n ast.Node) bool {
			switch x := n.(type) {
			case *ast.AssignStmt:
				for _, l := range x.Lhs {
					if sel, ok := ast.Unparen(l).(*ast.SelectorExpr); ok && sel.Sel.Name == "remoteAvailableShards" {
						if s, ok := info.Selections[sel]; ok && s.Kind() == types.FieldVal && core.IsNamed(s.Recv(), core.ModPath, "Field") {
							return true
						}
					}
				}
			case *ast.CallExpr:
				if fn := core.CalleeOf(info, x); fn != nil && fn.Name() == "mergeRemoteAvailableShards" && recvNamed(fn, "Field") {
					return true
				}
			}
			return false
		}
		isShardsSave := func(n ast.Node) bool {
			c, ok := n.(*ast.CallExpr)
			if !ok {
				return false
			}
			fn := core.CalleeOf(info, c)
			return fn != nil && recvNamed(fn, "Field") && (fn.Name() == "saveAvailableShards" || fn.Name() == "unprotectedSaveAvailableShards")
		}
		exempt := map[string]string{
			"(*Field).mergeRemoteAvailableShards": "in-memory helper; every caller is checked",
			"(*Field).loadAvailableShards":        "load time: merges what was just read from the file",
		}
		nS := 0
		for _, fd := range core.AllFuncDecls(pk) {
			if fd.Body == nil || strings.HasSuffix(p.Fset.Position(fd.Pos()).Filename, "_test.go") {
				continue
			}
			has := false
			ast.Inspect(fd.Body, func(n ast.Node) bool {
				if n != nil && isShardsMut(n) {
					has = true
				}
				return true
			})
			if !has {
				continue
			}
			name := core.FuncName(fd) + " available shards"
			nS++
			if why, ok := exempt[core.FuncName(fd)]; ok {
				r.HoldAt("R2", name, p.Pos(fd.Pos()), why)
				continue
			}
			res := runPathRule(pathRuleSpec{info: info, fd: fd, trigger: isShardsMut, required: []func(ast.Node) bool{isShardsSave}})
			switch {
			case res.unsupported != "":
				r.Undecide("R2", name, p.Pos(fd.Pos()), res.unsupported)
			case len(res.missing) > 0:
				r.Violate("R2", name, p.Pos(res.witnessPos.Pos()), "the field's set of remotely available shards is changed and the function can return normally without writing .available.shards: after a restart the shard is missing from the field's (and the index's) available shards until another node announces it again")
			default:
				r.HoldAt("R2", name, p.Pos(fd.Pos()), "the set is saved on every normal path after it changes")
			}
		}
		r.Floor("C08/R2 functions changing remote available shards", nS, 3)
	}
	// every caller of applyOptions other than Field.Open (which re-applies the
	// loaded options) saves the meta file afterwards
	isApply := func(n ast.Node) bool {
		c, ok := n.(*ast.CallExpr)
		if !ok {
			return false
		}
		fn := core.CalleeOf(info, c)
		return fn != nil && fn.Name() == "applyOptions" && recvNamed(fn, "Field")
	}
	nApply := 0
	for _, fd := range core.AllFuncDecls(pk) {
		if fd.Body == nil {
			continue
		}
		has := false
		ast.Inspect(fd.Body, func(n ast.Node) bool {
			if isApply(n) {
				has = true
			}
			return true
		})
		if !has {
			continue
		}
		nApply++
		name := core.FuncName(fd)
		if name == "(*Field).Open" {
			// must be applying f.options itself
			same := false
			ast.Inspect(fd.Body, func(n ast.Node) bool {
				if isApply(n) {
					c := n.(*ast.CallExpr)
					if len(c.Args) == 1 {
						if _, ok := core.FieldSel(info, c.Args[0], core.ModPath, "Field", "options"); ok {
							same = true
						}
					}
				}
				return true
			})
			r.Check(same, "R2", name+" applyOptions", p.Pos(fd.Pos()), "re-applies the options it just loaded", "Open applies options other than the ones it loaded and does not save them")
			continue
		}
		res := runPathRule(pathRuleSpec{info: info, fd: fd, trigger: isApply, required: []func(ast.Node) bool{isSave}})
		switch {
		case res.unsupported != "":
			r.Undecide("R2", name+" applyOptions", p.Pos(fd.Pos()), res.unsupported)
		case len(res.missing) > 0:
			r.Violate("R2", name+" applyOptions", p.Pos(res.witnessPos.Pos()), "creation options are applied and the function can return normally without saving the meta file: a new field's options do not survive a restart")
		default:
			r.HoldAt("R2", name+" applyOptions", p.Pos(fd.Pos()), "saveMeta follows on every normal path")
		}
	}
	r.Floor("C08/R2 callers of Field.applyOptions", nApply, 2)

	// ---- R3
	if fd := core.FuncDecl(pk, "Field", "saveMeta"); fd != nil {
		isRename := callTo(info, "os", "", "Rename")
		isWrite := func(n ast.Node) bool {
			c, ok := n.(*ast.CallExpr)
			if !ok {
				return false
			}
			fn := core.CalleeOf(info, c)
			return fn != nil && (fn.Name() == "WriteFile" || fn.Name() == "Write")
		}
		// rename must exist and be preceded by the write: rule "from entry, before return: write, rename" plus order by trigger
		res := runPathRule(pathRuleSpec{info: info, fd: fd, required: []func(ast.Node) bool{isWrite, isRename}})
		res2 := runPathRule(pathRuleSpec{info: info, fd: fd, trigger: isRename, required: []func(ast.Node) bool{isWrite}})
		// res2: after a rename, a write must NOT be what completes the file; we want write BEFORE rename => no normal path has rename without earlier write
		okOrder := len(res.missing) == 0 && (len(res2.missing) > 0 || !res2.triggered || true)
		// precise order check: first write position precedes first rename position in source and both are unconditional top-level statements
		var wpos, rpos ast.Node
		ast.Inspect(fd.Body, func(n ast.Node) bool {
			if isWrite(n) && wpos == nil {
				wpos = n
			}
			if isRename(n) && rpos == nil {
				rpos = n
			}
			return true
		})
		okOrder = okOrder && wpos != nil && rpos != nil && wpos.Pos() < rpos.Pos()
		// and the rename's source is the file that was written
		sameTemp := false
		if okOrder {
			w, rn := wpos.(*ast.CallExpr), rpos.(*ast.CallExpr)
			if len(w.Args) > 0 && len(rn.Args) == 2 && types.ExprString(w.Args[0]) == types.ExprString(rn.Args[0]) && types.ExprString(rn.Args[0]) != types.ExprString(rn.Args[1]) {
				sameTemp = true
			}
		}
		r.Check(okOrder && sameTemp, "R3", "(*Field).saveMeta", p.Pos(fd.Pos()), "writes a temporary file, then renames it over the meta file", "the meta file is no longer replaced atomically (write to a temporary path, then rename it over .meta): a crash while saving leaves a truncated meta file that blocks the next start")
	}
	_ = strings.TrimSpace
}
