package props

import (
	"go/ast"
	"go/types"
	"strings"

	"verif/checker/core"
	"verif/checker/flow"
)

// c24TablePointerIsCurrent: rule R6. The translate functions look a key up
// under the read lock and, on a miss, take the write lock and look again. The
// per-index (per-field) table they look in is itself an entry of a guarded
// map that the first writer creates; a table pointer fetched under one hold
// of the lock is stale under the next: it may be nil although the table now
// exists, and creating "the missing table" then replaces the one another
// writer just filled, with a sequence that starts again at zero.
func c24TablePointerIsCurrent(p *core.Program, r *core.Report) {
	pk := p.Pkg("")
	if pk == nil {
		return
	}
	info := pk.TypesInfo
	isTableMap := func(e ast.Expr) bool {
		for _, f := range []string{"cols", "rows"} {
			if _, ok := core.FieldSel(info, e, core.ModPath, "TranslateFile", f); ok {
				return true
			}
		}
		return false
	}
	n := 0
	for _, fd := range core.AllFuncDecls(pk) {
		if fd.Body == nil || core.RecvName(fd) != "TranslateFile" || strings.HasSuffix(p.Fset.Position(fd.Pos()).Filename, "_test.go") {
			continue
		}
		// variables assigned from an element of cols/rows (directly or through a one-level index on it)
		fromMap := func(e ast.Expr) bool {
			found := false
			ast.Inspect(e, func(m ast.Node) bool {
				if ix, ok := m.(*ast.IndexExpr); ok && isTableMap(ix.X) {
					found = true
				}
				return true
			})
			return found
		}
		vars := map[types.Object]flow.State{}
		ast.Inspect(fd.Body, func(m ast.Node) bool {
			as, ok := m.(*ast.AssignStmt)
			if !ok || len(as.Lhs) != len(as.Rhs) {
				return true
			}
			for i, l := range as.Lhs {
				if id, ok := ast.Unparen(l).(*ast.Ident); ok && fromMap(as.Rhs[i]) {
					o := info.ObjectOf(id)
					if _, seen := vars[o]; !seen && len(vars) < 20 {
						vars[o] = flow.State(1) << uint(len(vars))
					}
				}
			}
			return true
		})
		locks := false
		ast.Inspect(fd.Body, func(m ast.Node) bool {
			if c, ok := m.(*ast.CallExpr); ok {
				if sel, ok := ast.Unparen(c.Fun).(*ast.SelectorExpr); ok && sel.Sel.Name == "Lock" {
					if _, ok := core.FieldSel(info, sel.X, core.ModPath, "TranslateFile", "mu"); ok {
						locks = true
					}
				}
			}
			return true
		})
		if len(vars) == 0 || !locks {
			continue
		}
		n++
		var all flow.State
		for _, b := range vars {
			all |= b
		}
		var bad []string
		use := func(e ast.Node, s flow.State, assignedHere types.Object) {
			ast.Inspect(e, func(m ast.Node) bool {
				if id, ok := m.(*ast.Ident); ok {
					o := info.ObjectOf(id)
					if b, ok := vars[o]; ok && o != assignedHere && s&b == 0 {
						bad = append(bad, id.Name+" at "+p.Pos(id.Pos()))
					}
				}
				return true
			})
		}
		h := flow.Hooks{Info: info}
		h.Atom = func(nd ast.Node, s flow.State) []flow.State {
			switch x := nd.(type) {
			case *ast.CallExpr:
				if sel, ok := ast.Unparen(x.Fun).(*ast.SelectorExpr); ok {
					if _, ok := core.FieldSel(info, sel.X, core.ModPath, "TranslateFile", "mu"); ok {
						switch sel.Sel.Name {
						case "Lock", "RLock", "Unlock", "RUnlock":
							return []flow.State{s &^ all}
						}
					}
					use(sel.X, s, nil)
				}
				for _, a := range x.Args {
					use(a, s, nil)
				}
			case *ast.AssignStmt:
				for i, l := range x.Lhs {
					id, ok := ast.Unparen(l).(*ast.Ident)
					if !ok {
						use(l, s, nil)
						continue
					}
					o := info.ObjectOf(id)
					if b, isVar := vars[o]; isVar {
						// (re)assigned: current if it comes from the map or from a creating helper call
						if i < len(x.Rhs) || len(x.Rhs) == 1 {
							s |= b
						}
					}
				}
				for _, rh := range x.Rhs {
					use(rh, s, nil)
				}
			}
			return []flow.State{s}
		}
		h.Refine = func(c ast.Expr, taken bool, s flow.State) (flow.State, bool) {
			use(c, s, nil)
			return s, true
		}
		it := flow.Run(h, fd.Body, 0)
		construct := core.FuncName(fd) + ": the key table is looked up under the current hold of the lock"
		switch {
		case it.Unsupported != "":
			r.Undecide("R6", construct, p.Pos(fd.Pos()), it.Unsupported)
		case len(bad) > 0:
			r.Violate("R6", construct, p.Pos(fd.Pos()), "uses "+strings.Join(dedupe(bad), ", ")+", a table pointer fetched from cols/rows before the lock was released or taken again: after the lock changed hands the pointer may be nil although the table now exists, and the table created in its place replaces the one another writer just filled (two keys then share id 1)")
		default:
			r.HoldAt("R6", construct, p.Pos(fd.Pos()), "every use of a table pointer follows its (re)assignment under the current hold of the lock")
		}
	}
	r.Floor("C24/R6 translate functions that look tables up and take the write lock", n, 2)
}
