package props

import (
	"fmt"
	"go/ast"
	"go/constant"
	"go/token"
	"go/types"
	"sort"
	"strings"

	"verif/checker/core"
)

func init() { register("C15", c15) }

func c15(p *core.Program, r *core.Report) {
	r.Rule("R1", "operator table: executeBitmapCallShard sends each bitmap call name to its own per-shard function, and that function combines the per-shard rows of its children with the Row operation of the same name (Union/Intersect/Difference/Xor fold from the first child; Not subtracts the child from the existence row; Shift shifts the child)")
	r.Rule("R2", "a per-shard result stays in its shard: Shift is the only operator that moves bits, so the shift path (executeShiftShard, Row.Shift, rowSegment.Shift) must compute with the shard boundary somewhere -- drop or carry the bit that leaves the shard and take in the one that enters; a shift path that never mentions ShardWidth or shard arithmetic cannot be right at shard boundaries")
	r.Rule("R3", "Not is taken relative to the existence field: executeNotShard fails when the index has no existence field and otherwise subtracts from row 0 of the existence field's standard view in the same shard")
	r.Rule("R4", "reduce: per-shard rows are combined with Row.Merge, per-shard counts are added")
	r.Rule("R5", "the segment iterator keeps the sides apart: every return of mergeSegmentIterator.next puts into its first result only nil or a pointer into the receiver's first segment list, and into the second only nil or a pointer into the second list")
	c15IteratorSides(p, r)
	r.Rule("R6", "Set marks existence first: in executeSet every call of executeSetBitField or executeSetValueField lies on a path that called SetBit on the index's existence field, or found that field nil")
	c15SetMarksExistence(p, r)
	r.Rule("R7", "every shard is evaluated: a map function literal that an executor method hands to mapReduce and that evaluates per shard (calls an executor method named *Shard) returns with a nil error only after that call; no shard of the request is skipped on a guess about where data lives")
	c15EveryShardIsEvaluated(p, r)
	r.Rule("R8", "a segment copy stays in its shard: a fragment method that puts a container into <fragment>.storage at a key computed with `%` from a source key has compared that key with an upper bound on every path to the Put since the key was assigned")
	c15SegmentCopyStaysInShard(p, r)
	r.NotDecided = "equality of query answers with the set-algebra model for generated data (value level); the roaring kernels (C01); Row.Merge/Union/... themselves (C03 decides isolation only)"
	pk := p.Pkg("")
	if pk == nil {
		r.Undecide("R1", "package pilosa", "", "not loaded")
		return
	}
	info := pk.TypesInfo
	disp := core.FuncDecl(pk, "executor", "executeBitmapCallShard")
	if disp == nil {
		r.Undecide("R1", "(*executor).executeBitmapCallShard", "", "not found")
		return
	}
	// ---- R1 dispatch
	table := map[string]string{}
	hasDefaultErr := false
	ast.Inspect(disp.Body, func(n ast.Node) bool {
		cc, ok := n.(*ast.CaseClause)
		if !ok {
			return true
		}
		if cc.List == nil {
			for _, st := range cc.Body {
				if ret, ok := st.(*ast.ReturnStmt); ok && len(ret.Results) == 2 {
					if id, ok := ast.Unparen(ret.Results[0]).(*ast.Ident); ok && id.Name == "nil" {
						hasDefaultErr = true
					}
				}
			}
			return true
		}
		if len(cc.Body) != 1 {
			return true
		}
		ret, ok := cc.Body[0].(*ast.ReturnStmt)
		if !ok || len(ret.Results) != 1 {
			return true
		}
		call, ok := ast.Unparen(ret.Results[0]).(*ast.CallExpr)
		if !ok {
			return true
		}
		fn := core.CalleeOf(info, call)
		if fn == nil {
			return true
		}
		for _, e := range cc.List {
			if tv, ok := info.Types[e]; ok && tv.Value != nil && tv.Value.Kind() == constant.String {
				table[constant.StringVal(tv.Value)] = fn.Name()
			}
		}
		return true
	})
	want := map[string]string{"Row": "executeRowShard", "Range": "executeRowShard", "Difference": "executeDifferenceShard", "Intersect": "executeIntersectShard", "Union": "executeUnionShard", "Xor": "executeXorShard", "Not": "executeNotShard", "Shift": "executeShiftShard"}
	var names []string
	for k := range want {
		names = append(names, k)
	}
	sort.Strings(names)
	for _, k := range names {
		r.Check(table[k] == want[k], "R1", "dispatch "+k, p.Pos(disp.Pos()), k+" -> "+want[k], fmt.Sprintf("the call %s is answered by %q instead of %s", k, table[k], want[k]))
	}
	for k, v := range table {
		if _, ok := want[k]; !ok {
			r.Notes = append(r.Notes, "dispatch also knows "+k+" -> "+v)
		}
	}
	r.Check(hasDefaultErr, "R1", "dispatch default", p.Pos(disp.Pos()), "unknown call names are an error", "an unknown call name does not end in an error: it silently evaluates to something else")
	// per-shard folds
	for _, op := range []string{"Union", "Intersect", "Difference", "Xor"} {
		fd := core.FuncDecl(pk, "executor", "execute"+op+"Shard")
		construct := "(*executor).execute" + op + "Shard"
		if fd == nil {
			r.Undecide("R1", construct, "", "not found")
			continue
		}
		// inside the loop over c.Children: acc = child (first) / acc = acc.<op>(child)
		var loop *ast.RangeStmt
		ast.Inspect(fd.Body, func(n ast.Node) bool {
			if rs, ok := n.(*ast.RangeStmt); ok && loop == nil {
				if sel, ok := ast.Unparen(rs.X).(*ast.SelectorExpr); ok && sel.Sel.Name == "Children" {
					loop = rs
				}
			}
			return true
		})
		if loop == nil {
			r.Violate("R1", construct, p.Pos(fd.Pos()), "no loop over the call's children")
			continue
		}
		recursive := false
		var used []string
		ast.Inspect(loop.Body, func(n ast.Node) bool {
			c, ok := n.(*ast.CallExpr)
			if !ok {
				return true
			}
			fn := core.CalleeOf(info, c)
			if fn == nil {
				return true
			}
			if fn.Name() == "executeBitmapCallShard" {
				recursive = true
			}
			if recvNamed(fn, "Row") {
				switch fn.Name() {
				case "Union", "Intersect", "Difference", "Xor":
					used = append(used, fn.Name())
				}
			}
			return true
		})
		ok := recursive && len(used) >= 1
		for _, u := range used {
			if u != op {
				ok = false
			}
		}
		r.Check(ok, "R1", construct, p.Pos(fd.Pos()), "children are evaluated per shard and folded with Row."+op, fmt.Sprintf("children are folded with %v (recursive evaluation: %v) instead of Row.%s", used, recursive, op))
	}
	// ---- R3 Not
	if fd := core.FuncDecl(pk, "executor", "executeNotShard"); fd != nil {
		checksExistence, usesExistFrag, row0, diffOK := false, false, false, false
		ast.Inspect(fd.Body, func(n ast.Node) bool {
			switch x := n.(type) {
			case *ast.BinaryExpr:
				if x.Op == token.EQL {
					if c, ok := ast.Unparen(x.X).(*ast.CallExpr); ok {
						if fn := core.CalleeOf(info, c); fn != nil && fn.Name() == "existenceField" {
							if id, ok := ast.Unparen(x.Y).(*ast.Ident); ok && id.Name == "nil" {
								checksExistence = true
							}
						}
					}
				}
			case *ast.CallExpr:
				fn := core.CalleeOf(info, x)
				if fn == nil {
					return true
				}
				if fn.Name() == "fragment" && recvNamed(fn, "Holder") && len(x.Args) == 4 {
					a1, a2 := false, false
					if id, ok := ast.Unparen(x.Args[1]).(*ast.Ident); ok && id.Name == "existenceFieldName" {
						a1 = true
					}
					if id, ok := ast.Unparen(x.Args[2]).(*ast.Ident); ok && id.Name == "viewStandard" {
						a2 = true
					}
					usesExistFrag = a1 && a2
				}
				if fn.Name() == "row" && recvNamed(fn, "fragment") && len(x.Args) == 1 {
					if v, ok := c04ConstInt(info, x.Args[0]); ok && v == 0 {
						row0 = true
					}
				}
				if fn.Name() == "Difference" && recvNamed(fn, "Row") {
					if sel, ok := ast.Unparen(x.Fun).(*ast.SelectorExpr); ok {
						if id, ok := ast.Unparen(sel.X).(*ast.Ident); ok && strings.Contains(strings.ToLower(id.Name), "exist") {
							diffOK = true
						}
					}
				}
			}
			return true
		})
		ok := checksExistence && usesExistFrag && row0 && diffOK
		r.Check(ok, "R3", "(*executor).executeNotShard", p.Pos(fd.Pos()), "existence field required; result is existence row 0 of the shard minus the child", fmt.Sprintf("Not is not taken relative to the existence field (nil check %v, existence fragment of the shard %v, row 0 %v, existence.Difference(child) %v)", checksExistence, usesExistFrag, row0, diffOK))
	} else {
		r.Undecide("R3", "(*executor).executeNotShard", "", "not found")
	}
	// ---- R2 shift boundary
	{
		var fds []*ast.FuncDecl
		for _, f := range [][2]string{{"executor", "executeShiftShard"}, {"Row", "Shift"}, {"rowSegment", "Shift"}} {
			if fd := core.FuncDecl(pk, f[0], f[1]); fd != nil {
				fds = append(fds, fd)
			}
		}
		if len(fds) != 3 {
			r.Undecide("R2", "Shift across a shard boundary", "", "shift path functions not found")
		} else {
			where := ""
			for _, fd := range fds {
				ast.Inspect(fd.Body, func(n ast.Node) bool {
					be, ok := n.(*ast.BinaryExpr)
					if !ok || where != "" {
						return true
					}
					mentions := false
					ast.Inspect(be, func(m ast.Node) bool {
						switch y := m.(type) {
						case *ast.Ident:
							if c, ok := info.ObjectOf(y).(*types.Const); ok && c.Name() == "ShardWidth" {
								mentions = true
							}
						case *ast.SelectorExpr:
							if y.Sel.Name == "shard" {
								mentions = true
							}
						}
						return true
					})
					if mentions {
						where = p.Pos(be.Pos())
					}
					return true
				})
			}
			if where != "" {
				r.HoldAt("R2", "Shift across a shard boundary", where, "the shift path computes with the shard boundary")
			} else {
				r.Violate("R2", "Shift across a shard boundary", p.Pos(fds[2].Pos()), "nothing on the shift path (executeShiftShard, Row.Shift, rowSegment.Shift) computes with ShardWidth or the segment's shard: the bit shifted out of the last column of a shard stays in that shard's segment (a column outside the shard), and the first column of the next shard never receives it when that shard is evaluated on its own -- Shift(Row(..)) lists a column twice or out of order, and Not/Difference/Intersect over a Shift are wrong at shard boundaries")
			}
		}
	}
	// ---- R4 reduce
	if fd := core.FuncDecl(pk, "executor", "executeBitmapCall"); fd != nil {
		merges := false
		ast.Inspect(fd.Body, func(n ast.Node) bool {
			if c, ok := n.(*ast.CallExpr); ok {
				if fn := core.CalleeOf(info, c); fn != nil && fn.Name() == "Merge" && recvNamed(fn, "Row") {
					merges = true
				}
			}
			return true
		})
		r.Check(merges, "R4", "(*executor).executeBitmapCall reduce", p.Pos(fd.Pos()), "per-shard rows are merged with Row.Merge", "the reduce step no longer merges per-shard rows with Row.Merge")
	} else {
		r.Undecide("R4", "(*executor).executeBitmapCall reduce", "", "not found")
	}
	if fd := core.FuncDecl(pk, "executor", "executeCount"); fd != nil {
		adds := false
		ast.Inspect(fd.Body, func(n ast.Node) bool {
			if fl, ok := n.(*ast.FuncLit); ok && fl.Type.Params.NumFields() == 2 {
				ast.Inspect(fl.Body, func(m ast.Node) bool {
					if be, ok := m.(*ast.BinaryExpr); ok && be.Op == token.ADD {
						adds = true
					}
					return true
				})
			}
			return true
		})
		r.Check(adds, "R4", "(*executor).executeCount reduce", p.Pos(fd.Pos()), "per-shard counts are added", "the reduce step of Count does not add the per-shard counts")
	} else {
		r.Undecide("R4", "(*executor).executeCount reduce", "", "not found")
	}
}
