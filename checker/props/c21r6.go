package props

import (
	"fmt"
	"go/ast"
	"go/types"
	"strings"

	"verif/checker/core"
)

// c21DiffNamesTheRightNode: rule R6. fragSources excludes "the differing
// node" from the sources of a removal (R2); cluster.diff decides which node
// that is. The node that is being removed is a member of the cluster before
// the change, the node being added a member of the cluster after it: in the
// branch that answers "remove" the result is an ID read out of the receiver's
// node list, in the branch that answers "add" out of the other cluster's.
func c21DiffNamesTheRightNode(p *core.Program, r *core.Report) {
	pk := p.Pkg("")
	if pk == nil {
		return
	}
	info := pk.TypesInfo
	fd := core.FuncDecl(pk, "cluster", "diff")
	if fd == nil {
		r.Undecide("R6", "(*cluster).diff", "", "not found")
		return
	}
	recv := info.Defs[fd.Recv.List[0].Names[0]]
	var other types.Object
	for _, fl := range fd.Type.Params.List {
		for _, nm := range fl.Names {
			other = info.Defs[nm]
		}
	}
	var idRes, actRes types.Object
	k := 0
	for _, fl := range fd.Type.Results.List {
		for _, nm := range fl.Names {
			if k == 0 {
				actRes = info.Defs[nm]
			}
			if k == 1 {
				idRes = info.Defs[nm]
			}
			k++
		}
	}
	if recv == nil || other == nil || idRes == nil || actRes == nil {
		r.Undecide("R6", "(*cluster).diff", p.Pos(fd.Pos()), "expected named results (action, nodeID, err) and one cluster parameter")
		return
	}
	parents := parentMap(fd.Body)
	// which cluster's node list an expression reads its node from
	sourceOf := func(e ast.Expr) types.Object {
		// X.ID with X an element of <cluster>.nodes or a range value over it
		sel, ok := ast.Unparen(e).(*ast.SelectorExpr)
		if !ok || sel.Sel.Name != "ID" {
			return nil
		}
		nodesOwner := func(x ast.Expr) types.Object {
			if ix, ok := ast.Unparen(x).(*ast.IndexExpr); ok {
				x = ix.X
			}
			if s2, ok := ast.Unparen(x).(*ast.SelectorExpr); ok && s2.Sel.Name == "nodes" {
				if id, ok := ast.Unparen(s2.X).(*ast.Ident); ok {
					return info.ObjectOf(id)
				}
			}
			return nil
		}
		if o := nodesOwner(sel.X); o != nil {
			return o
		}
		if id, ok := ast.Unparen(sel.X).(*ast.Ident); ok {
			o := info.ObjectOf(id)
			var owner types.Object
			ast.Inspect(fd.Body, func(m ast.Node) bool {
				if rs, ok := m.(*ast.RangeStmt); ok {
					if v, ok := rs.Value.(*ast.Ident); ok && info.ObjectOf(v) == o {
						owner = nodesOwner(rs.X)
					}
				}
				return true
			})
			return owner
		}
		return nil
	}
	n := 0
	ast.Inspect(fd.Body, func(m ast.Node) bool {
		as, ok := m.(*ast.AssignStmt)
		if !ok || len(as.Lhs) != 1 || len(as.Rhs) != 1 {
			return true
		}
		lid, ok := ast.Unparen(as.Lhs[0]).(*ast.Ident)
		if !ok || info.ObjectOf(lid) != actRes {
			return true
		}
		rid, ok := ast.Unparen(as.Rhs[0]).(*ast.Ident)
		if !ok {
			return true
		}
		var want types.Object
		var what string
		switch rid.Name {
		case "resizeJobActionRemove":
			want, what = recv, "remove"
		case "resizeJobActionAdd":
			want, what = other, "add"
		default:
			return true
		}
		blk, _ := parents[ast.Node(as)].(*ast.BlockStmt)
		if blk == nil {
			return true
		}
		n++
		var bad []string
		nAssign, untraced := 0, 0
		ast.Inspect(blk, func(k ast.Node) bool {
			a2, ok := k.(*ast.AssignStmt)
			if !ok || len(a2.Lhs) != len(a2.Rhs) {
				return true
			}
			for i, l := range a2.Lhs {
				if id, ok := ast.Unparen(l).(*ast.Ident); ok && info.ObjectOf(id) == idRes {
					nAssign++
					// only a source that is recognisably the other cluster's list is reported; an id that
					// reaches the result some other way (a set of ids, a helper) is not traced
					if src := sourceOf(a2.Rhs[i]); src != nil && src != want {
						bad = append(bad, p.Pos(a2.Pos())+": "+types.ExprString(a2.Rhs[i])+" is a node of "+src.Name()+".nodes")
					} else if src == nil {
						untraced++
					}
				}
			}
			return true
		})
		construct := "(*cluster).diff: the node named for " + what
		switch {
		case nAssign == 0:
			r.Violate("R6", construct, p.Pos(as.Pos()), "the branch never assigns the node id")
		case len(bad) > 0:
			r.Violate("R6", construct, p.Pos(as.Pos()), strings.Join(dedupe(bad), "; ")+" -- the node that is being "+what+"d is a member of "+want.Name()+".nodes; naming another node makes fragSources exclude a surviving owner from the sources and keep the leaving node as one")
		default:
			r.HoldAt("R6", construct, p.Pos(as.Pos()), fmt.Sprintf("no assignment reads the id out of the other cluster's node list (%d of %d assignments read it from %s.nodes)", nAssign-untraced, nAssign, want.Name()))
		}
		return true
	})
	r.Floor("C21/R6 branches of cluster.diff", n, 2)
}
