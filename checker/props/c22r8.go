package props

import (
	"go/ast"
	"go/token"
	"go/types"
	"strings"

	"verif/checker/core"
)

// c22PremarkedNodes: rule R8. A node is waited for unless its entry in the
// job's IDs map is true. At generation an entry may be set to true only for a
// node that is sent no instruction, and that is known only from the node's
// complete, merged source list.
func c22PremarkedNodes(p *core.Program, r *core.Report) {
	pk := p.Pkg("")
	if pk == nil {
		return
	}
	info := pk.TypesInfo
	isIDsIndex := func(e ast.Expr) (*ast.IndexExpr, bool) {
		ix, ok := ast.Unparen(e).(*ast.IndexExpr)
		if !ok {
			return nil, false
		}
		_, ok = core.FieldSel(info, ix.X, core.ModPath, "resizeJob", "IDs")
		return ix, ok
	}
	isInstrLit := func(n ast.Node) bool {
		cl, ok := n.(*ast.CompositeLit)
		if !ok {
			return false
		}
		t := info.TypeOf(cl)
		return t != nil && core.IsNamed(t, core.ModPath, "ResizeInstruction") && len(cl.Elts) > 0
	}
	nGen := 0
	for _, fd := range core.AllFuncDecls(pk) {
		if fd.Body == nil || strings.HasSuffix(p.Fset.Position(fd.Pos()).Filename, "_test.go") {
			continue
		}
		parents := parentMap(fd.Body)
		enclosingRange := func(n ast.Node) *ast.RangeStmt {
			for q := parents[n]; q != nil; q = parents[q] {
				if rs, ok := q.(*ast.RangeStmt); ok {
					return rs
				}
				if _, ok := q.(*ast.FuncLit); ok {
					return nil
				}
			}
			return nil
		}
		rangedObj := func(rs *ast.RangeStmt) types.Object {
			if rs == nil {
				return nil
			}
			if id, ok := ast.Unparen(rs.X).(*ast.Ident); ok {
				return info.ObjectOf(id)
			}
			return nil
		}
		// the loop that builds the instructions
		var instrLoop *ast.RangeStmt
		var instrPos token.Pos
		ast.Inspect(fd.Body, func(n ast.Node) bool {
			if isInstrLit(n) && instrLoop == nil {
				instrLoop, instrPos = enclosingRange(n), n.Pos()
			}
			return true
		})
		if !instrPos.IsValid() {
			continue
		}
		nGen++
		mObj := rangedObj(instrLoop)
		if mObj == nil {
			r.Undecide("R8", core.FuncName(fd)+": instruction loop", p.Pos(instrPos), "the instructions are not built in a range loop over a named collection of per-node sources")
			continue
		}
		// the merged collection must be complete when it is ranged over: no element write after the first loop over it starts
		firstRange := token.NoPos
		ast.Inspect(fd.Body, func(n ast.Node) bool {
			if rs, ok := n.(*ast.RangeStmt); ok && rangedObj(rs) == mObj && (!firstRange.IsValid() || rs.Pos() < firstRange) {
				firstRange = rs.Pos()
			}
			return true
		})
		lateWrite := token.NoPos
		ast.Inspect(fd.Body, func(n ast.Node) bool {
			as, ok := n.(*ast.AssignStmt)
			if !ok {
				return true
			}
			for _, l := range as.Lhs {
				if ix, ok := ast.Unparen(l).(*ast.IndexExpr); ok {
					if id, ok := ast.Unparen(ix.X).(*ast.Ident); ok && info.ObjectOf(id) == mObj && as.Pos() > firstRange {
						lateWrite = as.Pos()
					}
				}
			}
			return true
		})
		r.Check(!lateWrite.IsValid(), "R8", core.FuncName(fd)+": merged sources complete before use", p.Pos(fd.Pos()), "no element of "+mObj.Name()+" is written once it is ranged over", "the per-node source lists in "+mObj.Name()+" are still being written at "+p.Pos(lateWrite)+" after a loop over them started: decisions taken in that loop saw incomplete lists")
		// every write of a job's IDs entry in this function
		nW := 0
		ast.Inspect(fd.Body, func(n ast.Node) bool {
			as, ok := n.(*ast.AssignStmt)
			if !ok || len(as.Lhs) != len(as.Rhs) {
				return true
			}
			for i, l := range as.Lhs {
				ix, ok := isIDsIndex(l)
				if !ok {
					continue
				}
				nW++
				construct := core.FuncName(fd) + ": node pre-marked complete (" + types.ExprString(l) + ")"
				rhs := ast.Unparen(as.Rhs[i])
				if id, ok := rhs.(*ast.Ident); ok && id.Name == "false" {
					r.HoldAt("R8", construct, p.Pos(as.Pos()), "set to false: the node is waited for")
					continue
				}
				rs := enclosingRange(as)
				why := ""
				var valObj, keyObj types.Object
				if rs != nil {
					if id, ok := rs.Value.(*ast.Ident); ok {
						valObj = info.ObjectOf(id)
					}
					if id, ok := rs.Key.(*ast.Ident); ok {
						keyObj = info.ObjectOf(id)
					}
				}
				isEmptyTest := func(e ast.Expr) bool { // len(v) == 0 with v the loop's value
					be, ok := ast.Unparen(e).(*ast.BinaryExpr)
					if !ok || be.Op != token.EQL {
						return false
					}
					c, ok := ast.Unparen(be.X).(*ast.CallExpr)
					if !ok || core.BuiltinName(info, c) != "len" || len(c.Args) != 1 {
						return false
					}
					id, ok := ast.Unparen(c.Args[0]).(*ast.Ident)
					if !ok || valObj == nil || info.ObjectOf(id) != valObj {
						return false
					}
					v, ok := c04ConstInt(info, be.Y)
					return ok && v == 0
				}
				switch {
				case rs == nil || rangedObj(rs) != mObj:
					why = "it is not decided in a loop over " + mObj.Name() + ", the merged per-node source lists the instructions are built from"
				case keyObj == nil || func() bool { id, ok := ast.Unparen(ix.Index).(*ast.Ident); return !ok || info.ObjectOf(id) != keyObj }():
					why = "the entry written is not the one of the node the loop is looking at"
				default:
					okForm := isEmptyTest(rhs)
					if id, ok := rhs.(*ast.Ident); ok && id.Name == "true" {
						// under `if len(v) == 0 { ... }`
						for q := parents[ast.Node(as)]; q != nil && q != ast.Node(rs); q = parents[q] {
							if ifs, ok := q.(*ast.IfStmt); ok && isEmptyTest(ifs.Cond) {
								// must be in the body, not the else
								for c := ast.Node(as); c != nil; c = parents[c] {
									if c == ast.Node(ifs.Body) {
										okForm = true
									}
									if c == ast.Node(ifs) {
										break
									}
								}
							}
						}
					}
					if !okForm {
						why = "it is not conditional on the node's merged source list being empty (len(<sources>) == 0)"
					}
				}
				if why != "" {
					r.Violate("R8", construct, p.Pos(as.Pos()), "a node's completion entry is set to a value other than false at generation, but "+why+": a node that is sent an instruction can start out complete, the job then ends -- and the member list changes and old owners drop their fragments -- before that node has fetched its data")
				} else {
					r.HoldAt("R8", construct, p.Pos(as.Pos()), "pre-marked only when the node's merged source list is empty")
				}
			}
			return true
		})
		r.Floor("C22/R8 completion entries written by "+core.FuncName(fd), nW, 1)
	}
	r.Floor("C22/R8 functions that build resize instructions", nGen, 1)
}
