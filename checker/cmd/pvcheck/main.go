// pvcheck decides one property of /verif/properties.jsonl on /repo's current
// working tree by static analysis only.
//
//	pvcheck -prop C10 -tier quick|thorough
//	pvcheck -replay /verif/evidence/replay/C10-1.json
package main

import (
	"encoding/json"
	"flag"
	"fmt"
	"os"
	"os/exec"
	"path/filepath"
	"runtime/debug"
	"sort"
	"strconv"
	"strings"

	"verif/checker/core"
	"verif/checker/props"
)

func main() {
	prop := flag.String("prop", "", "property id (C01..C31)")
	tier := flag.String("tier", "", "quick or thorough (default: $VERIF_TIER or quick)")
	replay := flag.String("replay", "", "replay file written by an earlier run")
	list := flag.Bool("list", false, "list implemented properties")
	flag.Parse()
	if *list {
		fmt.Println(strings.Join(props.IDs(), " "))
		return
	}
	onlyRule, onlyConstruct := "", ""
	if *replay != "" {
		b, err := os.ReadFile(*replay)
		if err != nil {
			fmt.Println(err)
			os.Exit(2)
		}
		var rp struct{ Property, Rule, Construct, Tier string }
		if err := json.Unmarshal(b, &rp); err != nil {
			fmt.Println(err)
			os.Exit(2)
		}
		*prop, onlyRule, onlyConstruct = rp.Property, rp.Rule, rp.Construct
		if *tier == "" {
			*tier = rp.Tier
		}
	}
	if *tier == "" {
		*tier = os.Getenv("VERIF_TIER")
	}
	if *tier != "thorough" {
		*tier = "quick"
	}
	seed, _ := strconv.Atoi(os.Getenv("VERIF_SEED"))
	f := props.Lookup(*prop)
	if f == nil {
		fmt.Printf("unknown property %q; implemented: %s\n", *prop, strings.Join(props.IDs(), " "))
		os.Exit(2)
	}
	r := core.NewReport(*prop, *tier)
	cmd := "/verif/bin/pvcheck -prop " + *prop + " -tier " + *tier
	var p *core.Program
	func() {
		defer func() {
			if e := recover(); e != nil {
				r.Undecide("analyzer", "pvcheck", "", fmt.Sprintf("analyzer panic: %v\n%s", e, debug.Stack()))
			}
		}()
		var err error
		p, err = core.Load("")
		if err != nil {
			r.Undecide("load", core.RepoDir(), "", err.Error())
			return
		}
		f(p, r)
	}()
	if *tier == "thorough" && onlyRule == "" && p != nil {
		thorough(*prop, f, r)
	}
	if onlyRule != "" {
		var keep []core.Obligation
		for _, o := range r.Obls {
			if o.Rule == onlyRule && o.Construct == onlyConstruct {
				keep = append(keep, o)
			}
		}
		for _, o := range keep {
			fmt.Printf("%s rule=%s construct=%s at %s: %s\n", strings.ToUpper(string(o.Verdict)), o.Rule, o.Construct, o.Pos, o.Detail)
		}
		if len(keep) == 0 {
			fmt.Println("obligation no longer exists on this tree")
		}
		for _, o := range keep {
			if o.Verdict == core.Violated || o.Verdict == core.Undecided {
				os.Exit(1)
			}
		}
		return
	}
	os.Exit(r.Finish(p, seed, cmd))
}

// thorough adds, to the default-configuration analysis already in r:
//
//  1. the same rules under the repository's other build configurations. The
//     production variants (tags release, enterprise) count like the default
//     one: a violation there is a violation. The debugging variants
//     (roaringparanoia, roaringsentinel, roaringstats, btreeInstrumentation,
//     gofuzz) deliberately add assertions that panic, so their results are
//     recorded as notes only;
//  2. a self-test of detection power: every kept seeded change of this
//     property (/verif/seeded/<name>, meta.json says which checks caught it) is
//     applied in memory (go/packages overlay, /repo is not touched) and the rules
//     are run on it; the outcome is recorded as a note. A seed whose patch no
//     longer applies is reported as stale. The self-test never changes the verdict:
//     it says something about the checker, not about /repo.
func thorough(prop string, f props.Func, r *core.Report) {
	run := func(tags string, overlay map[string][]byte) (*core.Report, error) {
		r2 := core.NewReport(prop, "thorough")
		var err error
		func() {
			defer func() {
				if e := recover(); e != nil {
					err = fmt.Errorf("analyzer panic: %v", e)
				}
			}()
			var p2 *core.Program
			p2, err = core.LoadOverlay(tags, overlay)
			if err != nil {
				return
			}
			f(p2, r2)
		}()
		return r2, err
	}
	summarize := func(r2 *core.Report) (nh, nbad int, bad []string) {
		for _, o := range r2.Obls {
			switch o.Verdict {
			case core.Holds:
				nh++
			case core.Violated, core.Undecided:
				nbad++
				bad = append(bad, o.Rule+" "+o.Construct)
			}
		}
		sort.Strings(bad)
		return
	}
	have := map[string]bool{}
	for _, o := range r.Obls {
		have[o.Rule+"\x00"+o.Construct] = true
	}
	for _, cfg := range []struct {
		tags  string
		count bool
	}{{"release,enterprise", true}, {"roaringparanoia,roaringsentinel,roaringstats,btreeInstrumentation,gofuzz", false}} {
		r2, err := run(cfg.tags, nil)
		if err != nil {
			if cfg.count {
				r.Undecide("build-configuration", "tags="+cfg.tags, "", err.Error())
			} else {
				r.Notes = append(r.Notes, "build configuration tags="+cfg.tags+": not analysed: "+err.Error())
			}
			continue
		}
		nh, nbad, bad := summarize(r2)
		r.Notes = append(r.Notes, fmt.Sprintf("build configuration tags=%s: %d obligations hold, %d violated/undecided %v", cfg.tags, nh, nbad, bad))
		if cfg.count {
			for _, o := range r2.Obls {
				if (o.Verdict == core.Violated || o.Verdict == core.Undecided) && !have[o.Rule+"\x00"+o.Construct] {
					// only obligations the default configuration does not already carry
					o.Detail = "[tags=" + cfg.tags + "] " + o.Detail
					r.Obls = append(r.Obls, o)
				}
			}
		}
		r.Count("build configurations analysed", 1)
	}
	// self-test on kept seeds
	metas, _ := filepath.Glob(filepath.Join(core.VerifDir(), "seeded", "*", "meta.json"))
	sort.Strings(metas)
	for _, mp := range metas {
		b, err := os.ReadFile(mp)
		if err != nil {
			continue
		}
		var m struct {
			Name     string   `json:"name"`
			Property string   `json:"property"`
			Fire     []string `json:"checks_that_fire"`
		}
		if json.Unmarshal(b, &m) != nil {
			continue
		}
		expected := false
		for _, c := range m.Fire {
			if c == prop {
				expected = true
			}
		}
		if !expected && m.Property != prop {
			continue
		}
		overlay, err := overlayFromPatch(filepath.Join(filepath.Dir(mp), "patch.diff"))
		if err != nil {
			r.Notes = append(r.Notes, "self-test "+m.Name+": stale ("+err.Error()+")")
			continue
		}
		r2, err := run("", overlay)
		if err != nil {
			r.Notes = append(r.Notes, "self-test "+m.Name+": not analysed: "+err.Error())
			continue
		}
		_, nbad, bad := summarize(r2)
		// known findings of the unchanged tree do not count as detection
		var fresh []string
		for _, k := range bad {
			parts := strings.SplitN(k, " ", 2)
			if len(parts) == 2 && !core.IsKnown(prop, parts[0], parts[1]) {
				fresh = append(fresh, k)
			}
		}
		switch {
		case expected && len(fresh) > 0:
			r.Notes = append(r.Notes, fmt.Sprintf("self-test %s: detected as recorded (%d obligations: %v)", m.Name, len(fresh), fresh))
		case expected:
			r.Notes = append(r.Notes, "self-test "+m.Name+": NOT detected although meta.json records this check as catching it (checker regression?)")
		case len(fresh) > 0:
			r.Notes = append(r.Notes, fmt.Sprintf("self-test %s: detected (%v) although recorded as undetected; update meta.json", m.Name, fresh))
		default:
			r.Notes = append(r.Notes, "self-test "+m.Name+": not detected, as recorded (outside what the rules decide)")
		}
		_ = nbad
		r.Count("seeded changes re-analysed", 1)
	}
}

// overlayFromPatch applies a unified diff to copies of the files it names and
// returns the patched contents keyed by their path in the repository.
func overlayFromPatch(patch string) (map[string][]byte, error) {
	b, err := os.ReadFile(patch)
	if err != nil {
		return nil, err
	}
	var files []string
	for _, line := range strings.Split(string(b), "\n") {
		if strings.HasPrefix(line, "+++ b/") {
			files = append(files, strings.TrimSpace(strings.TrimPrefix(line, "+++ b/")))
		}
	}
	if len(files) == 0 {
		return nil, fmt.Errorf("no files in patch")
	}
	tmp, err := os.MkdirTemp("", "pvcheck-selftest-")
	if err != nil {
		return nil, err
	}
	defer os.RemoveAll(tmp)
	for _, fn := range files {
		src, err := os.ReadFile(filepath.Join(core.RepoDir(), fn))
		if err != nil {
			return nil, err
		}
		dst := filepath.Join(tmp, fn)
		if err := os.MkdirAll(filepath.Dir(dst), 0o755); err != nil {
			return nil, err
		}
		if err := os.WriteFile(dst, src, 0o644); err != nil {
			return nil, err
		}
	}
	cmd := exec.Command("patch", "-p1", "-s", "--no-backup-if-mismatch", "-d", tmp, "-i", patch)
	if out, err := cmd.CombinedOutput(); err != nil {
		return nil, fmt.Errorf("patch does not apply to the current tree: %s", strings.TrimSpace(string(out)))
	}
	overlay := map[string][]byte{}
	for _, fn := range files {
		nb, err := os.ReadFile(filepath.Join(tmp, fn))
		if err != nil {
			return nil, err
		}
		overlay[filepath.Join(core.RepoDir(), fn)] = nb
	}
	return overlay, nil
}
