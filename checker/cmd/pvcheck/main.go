// pvcheck decides one property of /verif/properties.jsonl on /repo's current
// working tree by static analysis only.
//
//	pvcheck -prop C10 -tier quick|thorough
//	pvcheck -replay /verif/evidence/replay/C10-1.json
package main

import (
	"encoding/json"
	"flag"
	"fmt"
	"os"
	"runtime/debug"
	"strconv"
	"strings"

	"verif/checker/core"
	"verif/checker/props"
)

func main() {
	prop := flag.String("prop", "", "property id (C01..C31)")
	tier := flag.String("tier", "", "quick or thorough (default: $VERIF_TIER or quick)")
	replay := flag.String("replay", "", "replay file written by an earlier run")
	list := flag.Bool("list", false, "list implemented properties")
	flag.Parse()
	if *list {
		fmt.Println(strings.Join(props.IDs(), " "))
		return
	}
	onlyRule, onlyConstruct := "", ""
	if *replay != "" {
		b, err := os.ReadFile(*replay)
		if err != nil {
			fmt.Println(err)
			os.Exit(2)
		}
		var rp struct{ Property, Rule, Construct, Tier string }
		if err := json.Unmarshal(b, &rp); err != nil {
			fmt.Println(err)
			os.Exit(2)
		}
		*prop, onlyRule, onlyConstruct = rp.Property, rp.Rule, rp.Construct
		if *tier == "" {
			*tier = rp.Tier
		}
	}
	if *tier == "" {
		*tier = os.Getenv("VERIF_TIER")
	}
	if *tier != "thorough" {
		*tier = "quick"
	}
	seed, _ := strconv.Atoi(os.Getenv("VERIF_SEED"))
	f := props.Lookup(*prop)
	if f == nil {
		fmt.Printf("unknown property %q; implemented: %s\n", *prop, strings.Join(props.IDs(), " "))
		os.Exit(2)
	}
	r := core.NewReport(*prop, *tier)
	cmd := "/verif/bin/pvcheck -prop " + *prop + " -tier " + *tier
	var p *core.Program
	func() {
		defer func() {
			if e := recover(); e != nil {
				r.Undecide("analyzer", "pvcheck", "", fmt.Sprintf("analyzer panic: %v\n%s", e, debug.Stack()))
			}
		}()
		var err error
		p, err = core.Load("")
		if err != nil {
			r.Undecide("load", core.RepoDir(), "", err.Error())
			return
		}
		f(p, r)
	}()
	if onlyRule != "" {
		var keep []core.Obligation
		for _, o := range r.Obls {
			if o.Rule == onlyRule && o.Construct == onlyConstruct {
				keep = append(keep, o)
			}
		}
		for _, o := range keep {
			fmt.Printf("%s rule=%s construct=%s at %s: %s\n", strings.ToUpper(string(o.Verdict)), o.Rule, o.Construct, o.Pos, o.Detail)
		}
		if len(keep) == 0 {
			fmt.Println("obligation no longer exists on this tree")
		}
		for _, o := range keep {
			if o.Verdict == core.Violated || o.Verdict == core.Undecided {
				os.Exit(1)
			}
		}
		return
	}
	os.Exit(r.Finish(p, seed, cmd))
}
