package main

import (
	"os"
	"strconv"

	"verif/checker/core"
	"verif/checker/props"
)

func init() {
	if len(os.Args) > 1 && os.Args[1] == "dbgfx" {
		p, err := core.Load("")
		if err != nil {
			panic(err)
		}
		k, _ := strconv.Atoi(os.Args[2])
		props.DebugFx(p, k, os.Args[3], os.Args[4])
		os.Exit(0)
	}
}
