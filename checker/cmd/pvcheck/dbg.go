package main

import (
	"os"
	"strconv"

	"verif/checker/core"
	"verif/checker/props"
)

func init() {
	if len(os.Args) > 1 && os.Args[1] == "dbgfx" {
		p, err := core.Load("")
		if err != nil {
			panic(err)
		}
		k, _ := strconv.Atoi(os.Args[2])
		props.DebugFx(p, k, os.Args[3], os.Args[4])
		os.Exit(0)
	}
}

func init() {
	if len(os.Args) > 2 && os.Args[1] == "dbgpl" {
		p, err := core.Load("")
		if err != nil {
			panic(err)
		}
		props.DebugPayload(p, os.Args[2:])
		os.Exit(0)
	}
}

func init() {
	if len(os.Args) > 1 && os.Args[1] == "dbgplw" {
		p, err := core.Load("")
		if err != nil {
			panic(err)
		}
		props.DebugPayloadWriters(p)
		os.Exit(0)
	}
}

func init() {
	if len(os.Args) > 1 && os.Args[1] == "dbgrw" {
		p, err := core.Load("")
		if err != nil {
			panic(err)
		}
		props.DebugRecvWriters(p)
		os.Exit(0)
	}
}

func init() {
	if len(os.Args) > 1 && os.Args[1] == "dbgnarrow" {
		p, err := core.Load("")
		if err != nil {
			panic(err)
		}
		props.DebugNarrowAdds(p)
		os.Exit(0)
	}
}

func init() {
	if len(os.Args) > 1 && os.Args[1] == "dbgwrapnil" {
		p, err := core.Load("")
		if err != nil {
			panic(err)
		}
		props.DebugWrapNil(p)
		os.Exit(0)
	}
}
