package core

import (
	"go/ast"
	"go/types"

	"golang.org/x/tools/go/packages"
)

// ParamEffects computes, for every declared function of pk, the parameter
// positions (0 = receiver, 1.. = parameters in order) through which the
// function performs a seed effect, directly or by passing that parameter on
// (as receiver or argument) to another function of pk that does. seed returns
// the operand expressions on which node n performs the effect; only operands
// that are plain identifiers bound to a parameter/receiver count.
// Function literals inside a body are attributed to the enclosing declaration.
func ParamEffects(pk *packages.Package, seed func(info *types.Info, n ast.Node) []ast.Expr) map[*types.Func]map[int]bool {
	info := pk.TypesInfo
	type fnInfo struct {
		decl   *ast.FuncDecl
		obj    *types.Func
		params map[types.Object]int
	}
	var fns []*fnInfo
	byObj := map[*types.Func]*fnInfo{}
	for _, fd := range AllFuncDecls(pk) {
		obj, _ := info.Defs[fd.Name].(*types.Func)
		if obj == nil || fd.Body == nil {
			continue
		}
		fi := &fnInfo{decl: fd, obj: obj, params: map[types.Object]int{}}
		if fd.Recv != nil && len(fd.Recv.List) > 0 && len(fd.Recv.List[0].Names) > 0 {
			if o := info.Defs[fd.Recv.List[0].Names[0]]; o != nil {
				fi.params[o] = 0
			}
		}
		i := 1
		for _, fld := range fd.Type.Params.List {
			if len(fld.Names) == 0 {
				i++
				continue
			}
			for _, nm := range fld.Names {
				if o := info.Defs[nm]; o != nil {
					fi.params[o] = i
				}
				i++
			}
		}
		fns = append(fns, fi)
		byObj[obj] = fi
	}
	res := map[*types.Func]map[int]bool{}
	mark := func(fi *fnInfo, e ast.Expr) bool {
		id, ok := ast.Unparen(e).(*ast.Ident)
		if !ok {
			return false
		}
		pos, ok := fi.params[info.ObjectOf(id)]
		if !ok {
			return false
		}
		if res[fi.obj] == nil {
			res[fi.obj] = map[int]bool{}
		}
		if res[fi.obj][pos] {
			return false
		}
		res[fi.obj][pos] = true
		return true
	}
	for changed := true; changed; {
		changed = false
		for _, fi := range fns {
			ast.Inspect(fi.decl.Body, func(n ast.Node) bool {
				if n == nil {
					return false
				}
				for _, e := range seed(info, n) {
					if mark(fi, e) {
						changed = true
					}
				}
				call, ok := n.(*ast.CallExpr)
				if !ok {
					return true
				}
				callee := CalleeOf(info, call)
				if callee == nil {
					return true
				}
				eff := res[callee]
				if len(eff) == 0 {
					return true
				}
				if eff[0] {
					if sel, ok := ast.Unparen(call.Fun).(*ast.SelectorExpr); ok {
						if mark(fi, sel.X) {
							changed = true
						}
					}
				}
				for i, a := range call.Args {
					if eff[i+1] && mark(fi, a) {
						changed = true
					}
				}
				return true
			})
		}
	}
	return res
}

// FieldSel reports whether e is a selector `X.<field>` where X has (pointer
// to) the named type pkgPath.typeName; returns X.
func FieldSel(info *types.Info, e ast.Expr, pkgPath, typeName, field string) (ast.Expr, bool) {
	sel, ok := ast.Unparen(e).(*ast.SelectorExpr)
	if !ok || sel.Sel.Name != field {
		return nil, false
	}
	tv, ok := info.Types[sel.X]
	if !ok || !IsNamed(tv.Type, pkgPath, typeName) {
		return nil, false
	}
	if s, ok := info.Selections[sel]; ok && s.Kind() != types.FieldVal {
		return nil, false
	}
	return sel.X, true
}
