// Package core holds what every rule shares: loading /repo's current working
// tree through go/packages, the obligation model (holds / violated /
// undecided), known-finding handling, evidence and replay files.
package core

import (
	"encoding/json"
	"fmt"
	"go/ast"
	"go/token"
	"go/types"
	"os"
	"path/filepath"
	"sort"
	"strings"
	"time"

	"golang.org/x/tools/go/packages"
)

// RepoDir is the tree being analysed. PILOSA_REPO overrides it (used only by
// the mutant self-test, which analyses scratch copies).
func RepoDir() string {
	if d := os.Getenv("PILOSA_REPO"); d != "" {
		return d
	}
	return "/repo"
}

// VerifDir is where evidence and known findings live.
func VerifDir() string {
	if d := os.Getenv("VERIF_DIR"); d != "" {
		return d
	}
	return "/verif"
}

const ModPath = "github.com/pilosa/pilosa"

// Program is the loaded, type-checked module.
type Program struct {
	Fset  *token.FileSet
	Pkgs  map[string]*packages.Package // by import path
	All   []*packages.Package
	Tags  string
	NFunc int
}

// Load type-checks every package of the module in RepoDir (all initial
// packages with syntax; dependencies from export data).
func Load(tags string) (*Program, error) { return LoadOverlay(tags, nil) }

// LoadOverlay is Load with some files replaced in memory (absolute path ->
// contents); used by the thorough tier's self-test to analyse a kept seeded
// change without touching /repo.
func LoadOverlay(tags string, overlay map[string][]byte) (*Program, error) {
	env := append(os.Environ(), "GOFLAGS=-mod=mod", "GOPROXY=off", "GOSUMDB=off", "GOTOOLCHAIN=local", "GOWORK=off")
	cfg := &packages.Config{
		Mode: packages.NeedName | packages.NeedFiles | packages.NeedCompiledGoFiles | packages.NeedImports |
			packages.NeedTypes | packages.NeedTypesSizes | packages.NeedSyntax | packages.NeedTypesInfo | packages.NeedDeps | packages.NeedModule,
		Dir:   RepoDir(),
		Env:   env,
		Tests: false,
	}
	if len(overlay) > 0 {
		cfg.Overlay = overlay
	}
	if tags != "" {
		cfg.BuildFlags = []string{"-tags=" + tags}
	}
	pkgs, err := packages.Load(cfg, "./...")
	if err != nil {
		return nil, err
	}
	p := &Program{Pkgs: map[string]*packages.Package{}, Tags: tags}
	var errs []string
	for _, pk := range pkgs {
		for _, e := range pk.Errors {
			errs = append(errs, e.Error())
		}
		p.Pkgs[pk.PkgPath] = pk
		p.All = append(p.All, pk)
		if p.Fset == nil {
			p.Fset = pk.Fset
		}
		for _, f := range pk.Syntax {
			for _, d := range f.Decls {
				if _, ok := d.(*ast.FuncDecl); ok {
					p.NFunc++
				}
			}
		}
	}
	if len(errs) > 0 {
		if len(errs) > 8 {
			errs = errs[:8]
		}
		return nil, fmt.Errorf("type-check/load errors: %s", strings.Join(errs, "; "))
	}
	if len(pkgs) == 0 {
		return nil, fmt.Errorf("no packages loaded from %s", RepoDir())
	}
	sort.Slice(p.All, func(i, j int) bool { return p.All[i].PkgPath < p.All[j].PkgPath })
	return p, nil
}

// Pkg returns the package with the given path relative to the module root
// ("" is the root package).
func (p *Program) Pkg(rel string) *packages.Package {
	path := ModPath
	if rel != "" {
		path += "/" + rel
	}
	return p.Pkgs[path]
}

// Pos renders a position relative to the repo root.
func (p *Program) Pos(pos token.Pos) string {
	if !pos.IsValid() {
		return "?"
	}
	ps := p.Fset.Position(pos)
	rel, err := filepath.Rel(RepoDir(), ps.Filename)
	if err != nil {
		rel = ps.Filename
	}
	return fmt.Sprintf("%s:%d", rel, ps.Line)
}

// FuncDecl finds a function or method declaration. recv is "" for a plain
// function, otherwise the receiver's type name without '*'.
func FuncDecl(pk *packages.Package, recv, name string) *ast.FuncDecl {
	if pk == nil {
		return nil
	}
	for _, f := range pk.Syntax {
		for _, d := range f.Decls {
			fd, ok := d.(*ast.FuncDecl)
			if !ok || fd.Name.Name != name {
				continue
			}
			if RecvName(fd) == recv {
				return fd
			}
		}
	}
	return nil
}

// RecvName returns the receiver type name of fd ("" if none).
func RecvName(fd *ast.FuncDecl) string {
	if fd.Recv == nil || len(fd.Recv.List) == 0 {
		return ""
	}
	t := fd.Recv.List[0].Type
	for {
		switch x := t.(type) {
		case *ast.StarExpr:
			t = x.X
			continue
		case *ast.ParenExpr:
			t = x.X
			continue
		case *ast.IndexExpr:
			t = x.X
			continue
		case *ast.Ident:
			return x.Name
		}
		return ""
	}
}

// FuncName renders a declaration as "(*T).m" / "(T).m" / "f".
func FuncName(fd *ast.FuncDecl) string {
	if fd.Recv == nil || len(fd.Recv.List) == 0 {
		return fd.Name.Name
	}
	if _, ok := fd.Recv.List[0].Type.(*ast.StarExpr); ok {
		return "(*" + RecvName(fd) + ")." + fd.Name.Name
	}
	return "(" + RecvName(fd) + ")." + fd.Name.Name
}

// AllFuncDecls lists the declarations of a package in source order.
func AllFuncDecls(pk *packages.Package) []*ast.FuncDecl {
	var out []*ast.FuncDecl
	if pk == nil {
		return out
	}
	for _, f := range pk.Syntax {
		for _, d := range f.Decls {
			if fd, ok := d.(*ast.FuncDecl); ok {
				out = append(out, fd)
			}
		}
	}
	return out
}

// NamedOf strips pointers and returns the named type, or nil.
func NamedOf(t types.Type) *types.Named {
	for t != nil {
		switch x := t.(type) {
		case *types.Pointer:
			t = x.Elem()
			continue
		case *types.Named:
			return x
		case *types.Alias:
			t = types.Unalias(x)
			continue
		}
		return nil
	}
	return nil
}

// IsNamed reports whether t (through pointers) is the named type pkgPath.name.
func IsNamed(t types.Type, pkgPath, name string) bool {
	n := NamedOf(t)
	if n == nil || n.Obj() == nil {
		return false
	}
	if n.Obj().Name() != name {
		return false
	}
	if n.Obj().Pkg() == nil {
		return pkgPath == ""
	}
	return n.Obj().Pkg().Path() == pkgPath
}

// CalleeOf resolves the static callee of a call (function, method, or
// interface method); nil for calls of function values, conversions, builtins.
func CalleeOf(info *types.Info, call *ast.CallExpr) *types.Func {
	var id *ast.Ident
	switch f := ast.Unparen(call.Fun).(type) {
	case *ast.Ident:
		id = f
	case *ast.SelectorExpr:
		id = f.Sel
	case *ast.IndexExpr:
		switch g := ast.Unparen(f.X).(type) {
		case *ast.Ident:
			id = g
		case *ast.SelectorExpr:
			id = g.Sel
		}
	}
	if id == nil {
		return nil
	}
	if fn, ok := info.Uses[id].(*types.Func); ok {
		return fn
	}
	return nil
}

// BuiltinName returns the builtin's name if call is a builtin call.
func BuiltinName(info *types.Info, call *ast.CallExpr) string {
	if id, ok := ast.Unparen(call.Fun).(*ast.Ident); ok {
		if b, ok := info.Uses[id].(*types.Builtin); ok {
			return b.Name()
		}
	}
	return ""
}

// FuncKey renders a types.Func as pkgpath.(*T).m for table lookups.
func FuncKey(fn *types.Func) string {
	if fn == nil {
		return ""
	}
	sig, _ := fn.Type().(*types.Signature)
	pkg := ""
	if fn.Pkg() != nil {
		pkg = fn.Pkg().Path()
	}
	if sig != nil && sig.Recv() != nil {
		t := sig.Recv().Type()
		star := ""
		if p, ok := t.(*types.Pointer); ok {
			t = p.Elem()
			star = "*"
		}
		name := "?"
		if n := NamedOf(t); n != nil {
			name = n.Obj().Name()
		}
		return fmt.Sprintf("%s.(%s%s).%s", pkg, star, name, fn.Name())
	}
	return pkg + "." + fn.Name()
}

// ---------------------------------------------------------------------------
// Obligations

type Verdict string

const (
	Holds     Verdict = "holds"
	Violated  Verdict = "violated"
	Undecided Verdict = "undecided"
	Known     Verdict = "known"
)

type Obligation struct {
	Rule      string   `json:"rule"`
	Construct string   `json:"construct"`
	Verdict   Verdict  `json:"verdict"`
	Pos       string   `json:"pos,omitempty"`
	Detail    string   `json:"detail,omitempty"`
	Path      []string `json:"path,omitempty"`
}

type Report struct {
	Prop        string
	Tier        string
	Obls        []Obligation
	Counts      map[string]int
	Floors      []Floor
	Rules       map[string]string // rule id -> rule text
	Notes       []string
	Assumptions []string
	NotDecided  string
	Exhaustive  bool
	start       time.Time
}

type Floor struct {
	Name  string `json:"name"`
	Found int    `json:"found"`
	Min   int    `json:"min"`
}

func NewReport(prop, tier string) *Report {
	return &Report{Prop: prop, Tier: tier, Counts: map[string]int{}, Rules: map[string]string{}, start: time.Now()}
}

func (r *Report) Rule(id, text string) { r.Rules[id] = text }

func (r *Report) add(o Obligation) { r.Obls = append(r.Obls, o) }

func (r *Report) Hold(rule, construct, detail string) {
	r.add(Obligation{Rule: rule, Construct: construct, Verdict: Holds, Detail: detail})
}
func (r *Report) HoldAt(rule, construct, pos, detail string) {
	r.add(Obligation{Rule: rule, Construct: construct, Verdict: Holds, Pos: pos, Detail: detail})
}
func (r *Report) Violate(rule, construct, pos, detail string, path ...string) {
	r.add(Obligation{Rule: rule, Construct: construct, Verdict: Violated, Pos: pos, Detail: detail, Path: path})
}
func (r *Report) Undecide(rule, construct, pos, detail string) {
	r.add(Obligation{Rule: rule, Construct: construct, Verdict: Undecided, Pos: pos, Detail: detail})
}

// Check records holds/violated by condition.
func (r *Report) Check(ok bool, rule, construct, pos, okDetail, badDetail string) {
	if ok {
		r.HoldAt(rule, construct, pos, okDetail)
	} else {
		r.Violate(rule, construct, pos, badDetail)
	}
}

// Floor asserts that a rule matched at least min instances; fewer is
// undecided (a rule that matches nothing passes vacuously forever).
func (r *Report) Floor(name string, found, min int) {
	r.Floors = append(r.Floors, Floor{name, found, min})
	if found < min {
		r.Undecide("instance-floor", name, "", fmt.Sprintf("found %d instances, confirmed floor is %d: the rule's slots no longer match the code", found, min))
	}
}

func (r *Report) Count(k string, n int) { r.Counts[k] += n }

// ---------------------------------------------------------------------------
// Known findings

type knownEntry struct {
	prop, rule, construct, text string
}

func loadKnown() ([]knownEntry, error) {
	b, err := os.ReadFile(filepath.Join(VerifDir(), "known_findings.txt"))
	if os.IsNotExist(err) {
		return nil, nil
	}
	if err != nil {
		return nil, err
	}
	var out []knownEntry
	for _, ln := range strings.Split(string(b), "\n") {
		ln = strings.TrimSpace(ln)
		if !strings.HasPrefix(ln, "known:") {
			continue // comments and "fixed:" lines suppress nothing
		}
		rest := strings.TrimSpace(strings.TrimPrefix(ln, "known:"))
		head, text, _ := strings.Cut(rest, " -- ")
		e := knownEntry{text: strings.TrimSpace(text)}
		// fields are key=value; construct may contain spaces, so it is last
		// and runs to the end of head.
		for _, key := range []string{"property=", "rule=", "construct="} {
			i := strings.Index(head, key)
			if i < 0 {
				continue
			}
			v := head[i+len(key):]
			if key != "construct=" {
				if j := strings.IndexByte(v, ' '); j >= 0 {
					v = v[:j]
				}
			}
			v = strings.TrimSpace(v)
			switch key {
			case "property=":
				e.prop = v
			case "rule=":
				e.rule = v
			case "construct=":
				e.construct = v
			}
		}
		if e.prop != "" && e.rule != "" && e.construct != "" {
			out = append(out, e)
		}
	}
	return out, nil
}

// ---------------------------------------------------------------------------
// Finish: apply known findings, print, write evidence and replay, exit code.

type evidence struct {
	PropertyID  string                 `json:"property_id"`
	Tier        string                 `json:"tier"`
	Seed        int                    `json:"seed"`
	Level       string                 `json:"level"`
	Coverage    map[string]interface{} `json:"coverage"`
	Assumptions []string               `json:"assumptions"`
	WallS       float64                `json:"wall_s"`
	Violations  int                    `json:"violations"`
}

// Finish prints the verdict lines, writes evidence/<id>.json and replay
// files, and returns the process exit code.
func (r *Report) Finish(p *Program, seed int, cmd string) int {
	known, kerr := loadKnown()
	if kerr != nil {
		r.Undecide("known-findings", "known_findings.txt", "", kerr.Error())
	}
	usedKnown := map[int]bool{}
	for i := range r.Obls {
		o := &r.Obls[i]
		if o.Verdict != Violated {
			continue
		}
		for ki, k := range known {
			if k.prop == r.Prop && k.rule == o.Rule && k.construct == o.Construct {
				o.Verdict = Known
				usedKnown[ki] = true
				break
			}
		}
	}
	nh, nv, nu, nk := 0, 0, 0, 0
	for _, o := range r.Obls {
		switch o.Verdict {
		case Holds:
			nh++
		case Violated:
			nv++
		case Undecided:
			nu++
		case Known:
			nk++
		}
	}
	// replay files
	evdir := filepath.Join(VerifDir(), "evidence")
	rpdir := filepath.Join(evdir, "replay")
	os.MkdirAll(rpdir, 0o755)
	old, _ := filepath.Glob(filepath.Join(rpdir, r.Prop+"-*.json"))
	for _, f := range old {
		os.Remove(f)
	}
	n := 0
	printedKnown := map[string]bool{}
	for _, o := range r.Obls {
		switch o.Verdict {
		case Known:
			key := o.Rule + "|" + o.Construct
			if !printedKnown[key] {
				printedKnown[key] = true
				fmt.Printf("KNOWN-FINDING: property=%s rule=%s construct=%s at %s: %s\n", r.Prop, o.Rule, o.Construct, o.Pos, o.Detail)
			}
		case Violated, Undecided:
			n++
			path := filepath.Join(rpdir, fmt.Sprintf("%s-%d.json", r.Prop, n))
			b, _ := json.MarshalIndent(map[string]interface{}{"property": r.Prop, "rule": o.Rule, "rule_text": r.Rules[o.Rule], "construct": o.Construct, "verdict": o.Verdict, "pos": o.Pos, "detail": o.Detail, "path": o.Path, "tier": r.Tier}, "", " ")
			os.WriteFile(path, b, 0o644)
			fmt.Printf("%s rule=%s construct=%s at %s: %s\n", strings.ToUpper(string(o.Verdict)), o.Rule, o.Construct, o.Pos, o.Detail)
			for _, s := range o.Path {
				fmt.Printf("    via %s\n", s)
			}
			fmt.Printf("VIOLATION property=%s replay=%s\n", r.Prop, path)
		}
	}
	// evidence
	samples := []interface{}{}
	perRule := map[string]int{}
	for _, o := range r.Obls {
		// a few samples per rule, all non-holding ones
		if o.Verdict == Holds {
			if perRule[o.Rule] >= 4 {
				continue
			}
			perRule[o.Rule]++
		}
		samples = append(samples, o)
	}
	ruleIDs := make([]string, 0, len(r.Rules))
	for k := range r.Rules {
		ruleIDs = append(ruleIDs, k)
	}
	sort.Strings(ruleIDs)
	var expl strings.Builder
	expl.WriteString("Static decision (no pilosa code is executed) of these structural necessary conditions, evaluated over every matching construct of /repo's current source: ")
	for _, k := range ruleIDs {
		fmt.Fprintf(&expl, "[%s] %s ", k, r.Rules[k])
	}
	if r.NotDecided != "" {
		expl.WriteString("NOT decided: " + r.NotDecided)
	}
	distinct := map[string]bool{}
	for _, o := range r.Obls {
		distinct[o.Rule+"|"+o.Construct] = true
	}
	cov := map[string]interface{}{
		"explanation":         expl.String(),
		"obligations":         len(r.Obls),
		"discharged":          nh,
		"violated":            nv,
		"undecided":           nu,
		"known_findings":      nk,
		"evaluations":         len(r.Obls),
		"distinct_nontrivial": len(distinct),
		"rule":                "one obligation per (rule, construct) found by type-resolved queries over the loaded packages; distinct = distinct (rule, construct) keys",
		"samples":             samples,
		"instance_floors":     r.Floors,
		"counts":              r.Counts,
		"checker_cmd":         cmd,
		"trusted_base":        []string{"go/types type checker", "go/packages loader with the module's real build flags", "golang.org/x/tools v0.29.0 (go/ssa, go/cfg, callgraph) where used", "the rule tables in /verif/checker/props (exceptions are one symbol + reason each)"},
		"exhaustive":          r.Exhaustive,
		"notes":               r.Notes,
	}
	if p != nil {
		cov["packages_loaded"] = len(p.All)
		cov["functions_loaded"] = p.NFunc
		cov["build_tags"] = p.Tags
		cov["repo_dir"] = RepoDir()
	}
	ev := evidence{PropertyID: r.Prop, Tier: r.Tier, Seed: seed, Level: "other", Coverage: cov,
		Assumptions: r.Assumptions, WallS: time.Since(r.start).Seconds(), Violations: nv + nu}
	if ev.Assumptions == nil {
		ev.Assumptions = []string{}
	}
	b, _ := json.MarshalIndent(ev, "", " ")
	os.MkdirAll(evdir, 0o755)
	if err := os.WriteFile(filepath.Join(evdir, r.Prop+".json"), b, 0o644); err != nil {
		fmt.Printf("cannot write evidence: %v\n", err)
		return 2
	}
	fmt.Printf("%s %s: %d obligations, %d hold, %d violated, %d undecided, %d known findings (%.1fs)\n", r.Prop, r.Tier, len(r.Obls), nh, nv, nu, nk, time.Since(r.start).Seconds())
	if nv+nu > 0 {
		return 1
	}
	return 0
}

// IsKnown reports whether (prop, rule, construct) is listed as a known finding.
func IsKnown(prop, rule, construct string) bool {
	known, err := loadKnown()
	if err != nil {
		return false
	}
	for _, k := range known {
		if k.prop == prop && k.rule == rule && k.construct == construct {
			return true
		}
	}
	return false
}
