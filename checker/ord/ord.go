// Package ord is engine E6: abstract interpretation of comparison-only code
// over all weak orderings of a closed set of integer terms.
//
// The abstract domain is the finite set of order types (ordered set
// partitions) of the terms, optionally restricted by side conditions. For each
// order type the branch structure is executed abstractly — no concrete values,
// no solver; a comparison whose truth is not determined by the order type
// (possible only with ±k offsets) explores both branches. The caller supplies
// an oracle over the resulting paths. Constructs outside the interpretable
// subset make the run Unsupported (the obligation becomes undecided).
package ord

import (
	"fmt"
	"go/ast"
	"go/constant"
	"go/token"
	"go/types"
	"sort"
	"strings"
)

// Lin is base+off (base == "" means the constant off).
type Lin struct {
	Base string
	Off  int64
}

func (l Lin) String() string {
	if l.Base == "" {
		return fmt.Sprint(l.Off)
	}
	if l.Off == 0 {
		return l.Base
	}
	return fmt.Sprintf("%s%+d", l.Base, l.Off)
}

// Ordering assigns a rank to every term; equal rank = equal value.
type Ordering map[string]int

// Orderings enumerates all weak orderings of terms. Constant terms (decimal
// strings) are kept in their numeric order.
func Orderings(terms []string) []Ordering {
	var out []Ordering
	n := len(terms)
	ranks := make([]int, n)
	var rec func(i, maxRank int)
	// enumerate assignments of ranks 0..k-1 that are surjective (restricted growth is not enough for
	// ordered partitions, so enumerate all functions onto an initial segment and dedupe by validity)
	rec = func(i, used int) {
		if i == n {
			// surjective onto 0..used-1?
			seen := make([]bool, n)
			mx := -1
			for _, r := range ranks {
				seen[r] = true
				if r > mx {
					mx = r
				}
			}
			for r := 0; r <= mx; r++ {
				if !seen[r] {
					return
				}
			}
			o := Ordering{}
			for j, t := range terms {
				o[t] = ranks[j]
			}
			if constsConsistent(o) && integerFeasible(o) {
				out = append(out, o)
			}
			return
		}
		for r := 0; r < n; r++ {
			ranks[i] = r
			rec(i+1, used)
		}
	}
	rec(0, 0)
	return out
}

func constVal(t string) (int64, bool) {
	var v int64
	if _, err := fmt.Sscanf(t, "%d", &v); err == nil && fmt.Sprint(v) == t {
		return v, true
	}
	return 0, false
}

func constsConsistent(o Ordering) bool {
	type cv struct {
		v int64
		r int
	}
	var cs []cv
	for t, r := range o {
		if v, ok := constVal(t); ok {
			cs = append(cs, cv{v, r})
		}
	}
	for i := range cs {
		for j := range cs {
			if (cs[i].v < cs[j].v) != (cs[i].r < cs[j].r) || (cs[i].v == cs[j].v) != (cs[i].r == cs[j].r) {
				return false
			}
		}
	}
	return true
}

// integerFeasible rejects orderings that place a term strictly between two
// consecutive integer constants (terms are integers).
func integerFeasible(o Ordering) bool {
	for t1, r1 := range o {
		v1, ok := constVal(t1)
		if !ok {
			continue
		}
		for t2, r2 := range o {
			v2, ok := constVal(t2)
			if !ok || v2 != v1+1 {
				continue
			}
			for t3, r3 := range o {
				if _, isC := constVal(t3); isC {
					continue
				}
				if r1 < r3 && r3 < r2 {
					return false
				}
			}
		}
	}
	return true
}

func (o Ordering) String() string {
	byRank := map[int][]string{}
	mx := 0
	for t, r := range o {
		byRank[r] = append(byRank[r], t)
		if r > mx {
			mx = r
		}
	}
	var parts []string
	for r := 0; r <= mx; r++ {
		sort.Strings(byRank[r])
		parts = append(parts, strings.Join(byRank[r], "="))
	}
	return strings.Join(parts, " < ")
}

type Tri int

const (
	False Tri = iota
	True
	Unknown
)

// Cmp decides `a op b` under o.
func (o Ordering) Cmp(a Lin, op token.Token, b Lin) Tri {
	// normalise constants as terms when they are in the ordering
	ra, oka := o.rank(a.Base)
	rb, okb := o.rank(b.Base)
	if a.Base == "" && b.Base == "" {
		return triOf(cmpInt(a.Off, op, b.Off))
	}
	if a.Base == "" {
		if r, ok := o[fmt.Sprint(a.Off)]; ok {
			ra, oka, a = r, true, Lin{fmt.Sprint(a.Off), 0}
		}
	}
	if b.Base == "" {
		if r, ok := o[fmt.Sprint(b.Off)]; ok {
			rb, okb, b = r, true, Lin{fmt.Sprint(b.Off), 0}
		}
	}
	if !oka || !okb {
		return Unknown
	}
	// (A + oa) op (B + ob)  <=>  (A - B) op d, d = ob - oa
	d := b.Off - a.Off
	switch {
	case ra == rb: // A - B == 0
		return triOf(cmpInt(0, op, d))
	case ra < rb: // A - B <= -1
		switch op {
		case token.LSS:
			if d >= 0 {
				return True
			}
		case token.LEQ:
			if d >= -1 {
				return True
			}
		case token.GTR:
			if d >= -1 {
				return False
			}
		case token.GEQ:
			if d >= 0 {
				return False
			}
		case token.EQL:
			if d >= 0 {
				return False
			}
		case token.NEQ:
			if d >= 0 {
				return True
			}
		}
		return Unknown
	default: // A - B >= 1
		switch op {
		case token.GTR:
			if d <= 0 {
				return True
			}
		case token.GEQ:
			if d <= 1 {
				return True
			}
		case token.LSS:
			if d <= 1 {
				return False
			}
		case token.LEQ:
			if d <= 0 {
				return False
			}
		case token.EQL:
			if d <= 0 {
				return False
			}
		case token.NEQ:
			if d <= 0 {
				return True
			}
		}
		return Unknown
	}
}

func (o Ordering) rank(t string) (int, bool) {
	r, ok := o[t]
	return r, ok
}

func triOf(b bool) Tri {
	if b {
		return True
	}
	return False
}

func cmpInt(a int64, op token.Token, b int64) bool {
	switch op {
	case token.LSS:
		return a < b
	case token.LEQ:
		return a <= b
	case token.GTR:
		return a > b
	case token.GEQ:
		return a >= b
	case token.EQL:
		return a == b
	case token.NEQ:
		return a != b
	}
	return false
}

// ---------------------------------------------------------------------------

type EndKind int

const (
	EndFall EndKind = iota
	EndReturn
	EndContinue
	EndBreak
)

// Path is one abstract execution.
type Path struct {
	End       EndKind
	Ret       []ast.Expr          // results of the return statement
	Env       map[types.Object]Lin // aliases at the end of the path
	Accum     []ast.Node          // accumulating statements executed (x += e, x++)
	Unknowns  int
	Trace     []string
}

// Interp executes statement lists under one ordering.
type Interp struct {
	Info *types.Info
	O    Ordering
	// Term canonicalises a leaf expression (selector, identifier) to a term
	// name, or returns "" if it is not a term.
	Term        func(e ast.Expr) string
	Unsupported string
	// Shift names a term that the code subtracts from every value it compares
	// (x - Shift): the result is x in coordinates shifted by that term, and
	// order between two shifted values is the order between the originals.
	Shift string
	// CondHook resolves conditions outside the comparison subset (a boolean
	// parameter, err != nil); ok=false leaves the condition unsupported.
	CondHook func(e ast.Expr) (Tri, bool)
	// OnAssign, when set, is called for every assignment statement executed
	// on a path, with the aliases in force before it.
	OnAssign func(as *ast.AssignStmt, env map[types.Object]Lin)
}

// Cond evaluates a boolean expression under the interpreter's ordering.
func (in *Interp) Cond(e ast.Expr, env map[types.Object]Lin) Tri { return in.cond(e, env) }

// Lin evaluates an integer expression to base+off.
func (in *Interp) Lin(e ast.Expr, env map[types.Object]Lin) (Lin, bool) {
	if tv, ok := in.Info.Types[e]; ok && tv.Value != nil {
		if v, ok := constant.Int64Val(tv.Value); ok && tv.Value.Kind() == constant.Int {
			return Lin{"", v}, true
		}
	}
	switch x := ast.Unparen(e).(type) {
	case *ast.Ident:
		if l, ok := env[in.Info.ObjectOf(x)]; ok {
			return l, true
		}
	case *ast.CallExpr:
		// conversions int32(x)
		if tv, ok := in.Info.Types[x.Fun]; ok && tv.IsType() && len(x.Args) == 1 {
			return in.Lin(x.Args[0], env)
		}
	case *ast.BinaryExpr:
		if x.Op == token.ADD || x.Op == token.SUB {
			a, ok1 := in.Lin(x.X, env)
			b, ok2 := in.Lin(x.Y, env)
			if ok1 && ok2 && b.Base == "" {
				if x.Op == token.ADD {
					return Lin{a.Base, a.Off + b.Off}, true
				}
				return Lin{a.Base, a.Off - b.Off}, true
			}
			if ok1 && ok2 && a.Base == "" && x.Op == token.ADD {
				return Lin{b.Base, a.Off + b.Off}, true
			}
			if ok1 && ok2 && x.Op == token.SUB && in.Shift != "" && b.Base == in.Shift && b.Off == 0 {
				return a, true
			}
		}
	}
	if in.Term != nil {
		if t := in.Term(e); t != "" {
			return Lin{t, 0}, true
		}
	}
	return Lin{}, false
}

func (in *Interp) cond(e ast.Expr, env map[types.Object]Lin) Tri {
	switch x := ast.Unparen(e).(type) {
	case *ast.BinaryExpr:
		switch x.Op {
		case token.LAND:
			a := in.cond(x.X, env)
			if a == False {
				return False
			}
			b := in.cond(x.Y, env)
			if a == True {
				return b
			}
			if b == False {
				return False
			}
			return Unknown
		case token.LOR:
			a := in.cond(x.X, env)
			if a == True {
				return True
			}
			b := in.cond(x.Y, env)
			if a == False {
				return b
			}
			if b == True {
				return True
			}
			return Unknown
		case token.LSS, token.LEQ, token.GTR, token.GEQ, token.EQL, token.NEQ:
			a, ok1 := in.Lin(x.X, env)
			b, ok2 := in.Lin(x.Y, env)
			if ok1 && ok2 {
				return in.O.Cmp(a, x.Op, b)
			}
		}
	case *ast.UnaryExpr:
		if x.Op == token.NOT {
			switch in.cond(x.X, env) {
			case True:
				return False
			case False:
				return True
			}
			return Unknown
		}
	}
	if in.CondHook != nil {
		if t, ok := in.CondHook(e); ok {
			return t
		}
	}
	in.Unsupported = "condition outside the comparison subset: " + types.ExprString(e)
	return Unknown
}

func cloneEnv(env map[types.Object]Lin) map[types.Object]Lin {
	o := make(map[types.Object]Lin, len(env))
	for k, v := range env {
		o[k] = v
	}
	return o
}

// Run executes list and returns every abstract path.
func (in *Interp) Run(list []ast.Stmt, env map[types.Object]Lin) []Path {
	return in.run(list, Path{Env: cloneEnv(env)})
}

func (in *Interp) run(list []ast.Stmt, p Path) []Path {
	if len(list) == 0 {
		return []Path{p}
	}
	st, rest := list[0], list[1:]
	cont := func(ps []Path) []Path {
		var out []Path
		for _, q := range ps {
			if q.End != EndFall {
				out = append(out, q)
				continue
			}
			out = append(out, in.run(rest, q)...)
		}
		return out
	}
	switch x := st.(type) {
	case *ast.BlockStmt:
		return cont(in.run(x.List, p))
	case *ast.EmptyStmt:
		return in.run(rest, p)
	case *ast.ExprStmt:
		// calls with no bearing on ordering (stats, panics under paranoia) are skipped
		return in.run(rest, p)
	case *ast.DeclStmt:
		return in.run(rest, p)
	case *ast.AssignStmt:
		if in.OnAssign != nil {
			in.OnAssign(x, p.Env)
		}
		switch x.Tok {
		case token.OR_ASSIGN, token.AND_ASSIGN, token.XOR_ASSIGN, token.AND_NOT_ASSIGN, token.SHL_ASSIGN, token.SHR_ASSIGN, token.MUL_ASSIGN, token.QUO_ASSIGN, token.REM_ASSIGN:
			// bit and scale updates: the target is no longer a known term
			q := p
			q.Env = cloneEnv(p.Env)
			for _, l := range x.Lhs {
				if id, ok := l.(*ast.Ident); ok {
					delete(q.Env, in.Info.ObjectOf(id))
				}
			}
			return in.run(rest, q)
		case token.ADD_ASSIGN, token.SUB_ASSIGN:
			q := p
			q.Accum = append(append([]ast.Node{}, p.Accum...), x)
			return in.run(rest, q)
		case token.ASSIGN, token.DEFINE:
			q := p
			q.Env = cloneEnv(p.Env)
			if len(x.Lhs) == len(x.Rhs) {
				vals := make([]Lin, len(x.Rhs))
				oks := make([]bool, len(x.Rhs))
				for i, rh := range x.Rhs {
					vals[i], oks[i] = in.Lin(rh, p.Env)
				}
				for i, l := range x.Lhs {
					if id, ok := l.(*ast.Ident); ok {
						obj := in.Info.ObjectOf(id)
						if oks[i] {
							q.Env[obj] = vals[i]
						} else {
							delete(q.Env, obj)
						}
					}
				}
			}
			return in.run(rest, q)
		}
	case *ast.IncDecStmt:
		q := p
		q.Accum = append(append([]ast.Node{}, p.Accum...), x)
		return in.run(rest, q)
	case *ast.IfStmt:
		if x.Init != nil {
			ps := in.run([]ast.Stmt{x.Init}, p)
			var out []Path
			for _, q := range ps {
				out = append(out, in.run(append([]ast.Stmt{&ast.IfStmt{Cond: x.Cond, Body: x.Body, Else: x.Else}}, rest...), q)...)
			}
			return out
		}
		// paranoia-style constant conditions
		if tv, ok := in.Info.Types[x.Cond]; ok && tv.Value != nil && tv.Value.Kind() == constant.Bool {
			if constant.BoolVal(tv.Value) {
				return cont(in.run(x.Body.List, p))
			}
			if x.Else != nil {
				return cont(in.run([]ast.Stmt{x.Else}, p))
			}
			return in.run(rest, p)
		}
		if id, ok := ast.Unparen(x.Cond).(*ast.Ident); ok {
			if c, ok := in.Info.ObjectOf(id).(*types.Const); ok && c.Val().Kind() == constant.Bool {
				if constant.BoolVal(c.Val()) {
					return cont(in.run(x.Body.List, p))
				}
				if x.Else != nil {
					return cont(in.run([]ast.Stmt{x.Else}, p))
				}
				return in.run(rest, p)
			}
		}
		c := in.cond(x.Cond, p.Env)
		var out []Path
		if c == True || c == Unknown {
			q := p
			if c == Unknown {
				q.Unknowns++
			}
			q.Trace = append(append([]string{}, p.Trace...), "T:"+types.ExprString(x.Cond))
			out = append(out, cont(in.run(x.Body.List, q))...)
		}
		if c == False || c == Unknown {
			q := p
			if c == Unknown {
				q.Unknowns++
			}
			q.Trace = append(append([]string{}, p.Trace...), "F:"+types.ExprString(x.Cond))
			if x.Else != nil {
				out = append(out, cont(in.run([]ast.Stmt{x.Else}, q))...)
			} else {
				out = append(out, in.run(rest, q)...)
			}
		}
		return out
	case *ast.SwitchStmt:
		// a tagged switch over constants, or a tagless one: an if-else chain
		if x.Init != nil {
			break
		}
		var chain ast.Stmt
		var deflt *ast.CaseClause
		var clauses []*ast.CaseClause
		for _, c := range x.Body.List {
			cc := c.(*ast.CaseClause)
			if cc.List == nil {
				deflt = cc
				continue
			}
			clauses = append(clauses, cc)
		}
		if deflt != nil {
			chain = &ast.BlockStmt{List: deflt.Body}
		}
		for i := len(clauses) - 1; i >= 0; i-- {
			cc := clauses[i]
			var cond ast.Expr
			for _, e := range cc.List {
				var one ast.Expr = e
				if x.Tag != nil {
					one = &ast.BinaryExpr{X: x.Tag, Op: token.EQL, Y: e}
				}
				if cond == nil {
					cond = one
				} else {
					cond = &ast.BinaryExpr{X: cond, Op: token.LOR, Y: one}
				}
			}
			chain = &ast.IfStmt{Cond: cond, Body: &ast.BlockStmt{List: cc.Body}, Else: chain}
		}
		if chain == nil {
			return in.run(rest, p)
		}
		return in.run(append([]ast.Stmt{chain}, rest...), p)
	case *ast.ReturnStmt:
		p.End = EndReturn
		p.Ret = x.Results
		return []Path{p}
	case *ast.BranchStmt:
		switch x.Tok {
		case token.CONTINUE:
			p.End = EndContinue
			return []Path{p}
		case token.BREAK:
			p.End = EndBreak
			return []Path{p}
		}
	}
	in.Unsupported = fmt.Sprintf("statement outside the interpretable subset (%T)", st)
	return []Path{p}
}
