// Package flow is a structured abstract interpreter over Go syntax trees.
//
// It walks a function body in evaluation order, carrying a *set* of small
// abstract states (bitmasks whose meaning belongs to the rule using it), and
// joins by set union, so every rule built on it is a finite-state, path-based
// dataflow problem: must-pass-through, pairing (lock/unlock), ordering
// (validate before act). It understands the control idioms this repository
// uses: if/else with short-circuit conditions, for/range loops (to fixpoint),
// switch/type-switch/select, labelled break/continue, defer (run at every
// return of the frame that registered it, LIFO), immediately-invoked function
// literals (inlined), panic/os.Exit/log.Fatal (path ends). goto makes the
// function Unsupported (the caller reports "undecided").
//
// No pilosa code is executed; states are abstract and finite.
package flow

import (
	"go/ast"
	"go/token"
	"go/types"
	"sort"
)

type State uint64

// Hooks is what a rule supplies.
type Hooks struct {
	Info *types.Info
	// Atom is called, in evaluation order, for every call expression (after
	// its operands), assignment, inc/dec, send, receive (unary <-), go
	// statement (the statement itself; its call is not executed here), and
	// delete/other builtins (as calls). It returns the successor states of s;
	// an empty result ends the path.
	Atom func(n ast.Node, s State) []State
	// Refine is called when a leaf condition is taken true or false.
	Refine func(cond ast.Expr, taken bool, s State) (State, bool)
	// Return is called at each return statement of the outermost frame after
	// results were evaluated and deferred calls applied (ret == nil: fell off
	// the end).
	Return func(ret *ast.ReturnStmt, s State)
	// PreReturn is called at each return statement of every frame after
	// results were evaluated and before deferred calls run; it may adjust the
	// state (e.g. classify the exit).
	// lit is the function literal whose (inlined) frame is returning, nil for
	// the outermost frame.
	PreReturn func(ret *ast.ReturnStmt, lit *ast.FuncLit, s State) State
	// Conversions: also call Atom for type conversions T(x) (rules that care
	// about unsafe.Pointer casts).
	Conversions bool
	// Case, when set, is called for every case expression of a switch with a
	// tag: once with taken=true (the clause is entered through this value)
	// and once with taken=false (the value did not match). Returning false
	// drops the path.
	Case func(tag, val ast.Expr, taken bool, s State) (State, bool)
	// Eval is called for expressions that are evaluated but are neither a
	// condition nor part of a call/assignment: a switch tag, a range operand.
	Eval func(e ast.Expr, s State)
	// RangeAtLeastOnce: if it returns true the loop is assumed to run at
	// least once (its zero-iteration path is dropped).
	RangeAtLeastOnce func(rs *ast.RangeStmt) bool
	// EnterRange is called once per iteration entry with the loop statement.
	EnterRange func(rs *ast.RangeStmt, s State) State
}

type ist struct { // internal state
	S State
	D uint32 // registered defers of the current frame
}

type set map[ist]struct{}

func (a set) addAll(b set) bool {
	ch := false
	for k := range b {
		if _, ok := a[k]; !ok {
			a[k] = struct{}{}
			ch = true
		}
	}
	return ch
}

type frame struct {
	defers  []*ast.DeferStmt
	returns set // states at return (after defers) for inlined literals
	outer   bool
	lit     *ast.FuncLit
}

type loopCtx struct {
	label     string
	breaks    set
	continues set
	isSwitch  bool // break target only
}

type Interp struct {
	H           Hooks
	Unsupported string // non-empty: construct the engine does not model
	frames      []*frame
	loops       []*loopCtx
	Exits       []State // states at outermost returns
	switchTag   ast.Expr
	steps       int
}

// Run interprets body from the initial states and returns the states at the
// outermost frame's returns (also reported through Hooks.Return).
func Run(h Hooks, body *ast.BlockStmt, init ...State) *Interp {
	in := &Interp{H: h}
	if body == nil {
		return in
	}
	f := &frame{outer: true, returns: set{}}
	in.frames = append(in.frames, f)
	s := set{}
	for _, st := range init {
		s[ist{S: st}] = struct{}{}
	}
	out := in.block(body.List, s)
	// falling off the end
	for k := range out {
		in.doReturn(nil, k)
	}
	seen := map[State]bool{}
	for k := range f.returns {
		if !seen[k.S] {
			seen[k.S] = true
			in.Exits = append(in.Exits, k.S)
		}
	}
	sort.Slice(in.Exits, func(i, j int) bool { return in.Exits[i] < in.Exits[j] })
	return in
}

func (in *Interp) eval(e ast.Expr, s set) {
	if in.H.Eval == nil {
		return
	}
	for k := range s {
		in.H.Eval(e, k.S)
	}
}

func (in *Interp) cur() *frame { return in.frames[len(in.frames)-1] }

func (in *Interp) atom(n ast.Node, s set) set {
	out := set{}
	for k := range s {
		if in.H.Atom == nil {
			out[k] = struct{}{}
			continue
		}
		for _, ns := range in.H.Atom(n, k.S) {
			out[ist{S: ns, D: k.D}] = struct{}{}
		}
	}
	return out
}

func (in *Interp) doReturn(ret *ast.ReturnStmt, k ist) {
	f := in.cur()
	if in.H.PreReturn != nil {
		k.S = in.H.PreReturn(ret, f.lit, k.S)
	}
	states := set{k: {}}
	// deferred calls, LIFO
	for i := len(f.defers) - 1; i >= 0; i-- {
		if k.D&(1<<uint(i)) == 0 {
			continue
		}
		d := f.defers[i]
		if lit, ok := ast.Unparen(d.Call.Fun).(*ast.FuncLit); ok {
			states = in.inlineLit(lit, states)
		} else {
			states = in.atom(d.Call, states)
		}
	}
	for st := range states {
		st.D = 0
		f.returns[st] = struct{}{}
		if f.outer && in.H.Return != nil {
			in.H.Return(ret, st.S)
		}
	}
}

// inlineLit executes a function literal's body as a nested frame and returns
// the states at its returns, with the caller's defer mask restored.
func (in *Interp) inlineLit(lit *ast.FuncLit, s set) set {
	out := set{}
	for k := range s {
		f := &frame{returns: set{}, lit: lit}
		in.frames = append(in.frames, f)
		savedLoops := in.loops
		in.loops = nil
		end := in.block(lit.Body.List, set{ist{S: k.S}: {}})
		for e := range end {
			in.doReturn(nil, e)
		}
		in.loops = savedLoops
		in.frames = in.frames[:len(in.frames)-1]
		for r := range f.returns {
			out[ist{S: r.S, D: k.D}] = struct{}{}
		}
	}
	return out
}

func (in *Interp) block(list []ast.Stmt, s set) set {
	for _, st := range list {
		if len(s) == 0 {
			return s
		}
		s = in.stmt(st, s, "")
	}
	return s
}

func (in *Interp) findLoop(label string, forContinue bool) *loopCtx {
	for i := len(in.loops) - 1; i >= 0; i-- {
		l := in.loops[i]
		if label != "" {
			if l.label == label {
				return l
			}
			continue
		}
		if forContinue && l.isSwitch {
			continue
		}
		return l
	}
	return nil
}

func (in *Interp) stmt(st ast.Stmt, s set, label string) set {
	in.steps++
	if in.steps > 2_000_000 {
		in.Unsupported = "step budget exceeded"
		return set{}
	}
	switch x := st.(type) {
	case nil:
		return s
	case *ast.BlockStmt:
		return in.block(x.List, s)
	case *ast.ExprStmt:
		return in.expr(x.X, s)
	case *ast.AssignStmt:
		for _, e := range x.Rhs {
			s = in.expr(e, s)
		}
		for _, e := range x.Lhs {
			s = in.lhs(e, s)
		}
		return in.atom(x, s)
	case *ast.IncDecStmt:
		s = in.lhs(x.X, s)
		return in.atom(x, s)
	case *ast.DeclStmt:
		if gd, ok := x.Decl.(*ast.GenDecl); ok {
			for _, sp := range gd.Specs {
				if vs, ok := sp.(*ast.ValueSpec); ok {
					for _, e := range vs.Values {
						s = in.expr(e, s)
					}
					if len(vs.Values) > 0 {
						s = in.atom(vs, s)
					}
				}
			}
		}
		return s
	case *ast.SendStmt:
		s = in.expr(x.Chan, s)
		s = in.expr(x.Value, s)
		return in.atom(x, s)
	case *ast.GoStmt:
		for _, a := range x.Call.Args {
			s = in.expr(a, s)
		}
		return in.atom(x, s)
	case *ast.DeferStmt:
		for _, a := range x.Call.Args {
			s = in.expr(a, s)
		}
		if sel, ok := ast.Unparen(x.Call.Fun).(*ast.SelectorExpr); ok {
			s = in.expr(sel.X, s)
		}
		f := in.cur()
		idx := -1
		for i, d := range f.defers {
			if d == x {
				idx = i
			}
		}
		if idx < 0 {
			if len(f.defers) >= 32 {
				in.Unsupported = "more than 32 defer statements"
				return s
			}
			f.defers = append(f.defers, x)
			idx = len(f.defers) - 1
		}
		out := set{}
		for k := range s {
			k.D |= 1 << uint(idx)
			out[k] = struct{}{}
		}
		return out
	case *ast.ReturnStmt:
		for _, e := range x.Results {
			s = in.expr(e, s)
		}
		for k := range s {
			in.doReturn(x, k)
		}
		return set{}
	case *ast.LabeledStmt:
		return in.stmt(x.Stmt, s, x.Label.Name)
	case *ast.BranchStmt:
		lbl := ""
		if x.Label != nil {
			lbl = x.Label.Name
		}
		switch x.Tok {
		case token.BREAK:
			if l := in.findLoop(lbl, false); l != nil {
				l.breaks.addAll(s)
			} else {
				in.Unsupported = "break without target"
			}
		case token.CONTINUE:
			if l := in.findLoop(lbl, true); l != nil {
				l.continues.addAll(s)
			} else {
				in.Unsupported = "continue without target"
			}
		case token.GOTO:
			in.Unsupported = "goto"
		case token.FALLTHROUGH:
			// handled by the switch driver through the marker below
			return s
		}
		return set{}
	case *ast.IfStmt:
		s = in.stmt(x.Init, s, "")
		t, f := in.cond(x.Cond, s)
		out := in.block(x.Body.List, t)
		if x.Else != nil {
			out.addAll(in.stmt(x.Else, f, ""))
		} else {
			out.addAll(f)
		}
		return out
	case *ast.ForStmt:
		s = in.stmt(x.Init, s, "")
		l := &loopCtx{label: label, breaks: set{}, continues: set{}}
		head := set{}
		head.addAll(s)
		exit := set{}
		for iter := 0; ; iter++ {
			var t, f set
			if x.Cond != nil {
				t, f = in.cond(x.Cond, head)
			} else {
				t, f = copySet(head), set{}
			}
			exit.addAll(f)
			l.continues = set{}
			in.loops = append(in.loops, l)
			body := in.block(x.Body.List, t)
			in.loops = in.loops[:len(in.loops)-1]
			body.addAll(l.continues)
			body = in.stmt(x.Post, body, "")
			if !head.addAll(body) || iter > 64 {
				break
			}
		}
		exit.addAll(l.breaks)
		return exit
	case *ast.RangeStmt:
		s = in.expr(x.X, s)
		in.eval(x.X, s)
		l := &loopCtx{label: label, breaks: set{}, continues: set{}}
		head := copySet(s)
		exit := set{}
		atLeastOnce := in.H.RangeAtLeastOnce != nil && in.H.RangeAtLeastOnce(x)
		if !atLeastOnce {
			exit.addAll(s)
		}
		for iter := 0; ; iter++ {
			l.continues = set{}
			in.loops = append(in.loops, l)
			entry := head
			if in.H.EnterRange != nil {
				entry = set{}
				for k := range head {
					entry[ist{S: in.H.EnterRange(x, k.S), D: k.D}] = struct{}{}
				}
			}
			body := in.block(x.Body.List, copySet(entry))
			in.loops = in.loops[:len(in.loops)-1]
			body.addAll(l.continues)
			exit.addAll(body)
			if !head.addAll(body) || iter > 64 {
				break
			}
		}
		exit.addAll(l.breaks)
		return exit
	case *ast.SwitchStmt:
		s = in.stmt(x.Init, s, "")
		if x.Tag != nil {
			s = in.expr(x.Tag, s)
			in.eval(x.Tag, s)
		}
		in.switchTag = x.Tag
		return in.switchBody(x.Body, s, label, x.Tag == nil)
	case *ast.TypeSwitchStmt:
		s = in.stmt(x.Init, s, "")
		s = in.stmt(x.Assign, s, "")
		in.switchTag = nil
		return in.switchBody(x.Body, s, label, false)
	case *ast.SelectStmt:
		l := &loopCtx{label: label, breaks: set{}, continues: set{}, isSwitch: true}
		in.loops = append(in.loops, l)
		out := set{}
		for _, c := range x.Body.List {
			cc := c.(*ast.CommClause)
			cs := copySet(s)
			cs = in.stmt(cc.Comm, cs, "")
			out.addAll(in.block(cc.Body, cs))
		}
		in.loops = in.loops[:len(in.loops)-1]
		out.addAll(l.breaks)
		return out
	case *ast.EmptyStmt:
		return s
	}
	in.Unsupported = "unmodelled statement"
	return s
}

func (in *Interp) switchBody(body *ast.BlockStmt, s set, label string, tagless bool) set {
	tag := in.switchTag
	in.switchTag = nil
	l := &loopCtx{label: label, breaks: set{}, continues: set{}, isSwitch: true}
	in.loops = append(in.loops, l)
	out := set{}
	rest := copySet(s) // states for which no earlier case matched
	hasDefault := false
	var fall set
	var defaultClause *ast.CaseClause
	clauses := body.List
	for _, c := range clauses {
		cc := c.(*ast.CaseClause)
		if cc.List == nil {
			hasDefault = true
			defaultClause = cc
		}
	}
	run := func(cc *ast.CaseClause, entry set) {
		if fall != nil {
			entry.addAll(fall)
			fall = nil
		}
		res := in.block(cc.Body, entry)
		if n := len(cc.Body); n > 0 {
			if b, ok := cc.Body[n-1].(*ast.BranchStmt); ok && b.Tok == token.FALLTHROUGH {
				fall = res
				return
			}
		}
		out.addAll(res)
	}
	for _, c := range clauses {
		cc := c.(*ast.CaseClause)
		if cc.List == nil {
			continue
		}
		entry := set{}
		for _, e := range cc.List {
			if tagless {
				t, f := in.cond(e, rest)
				entry.addAll(t)
				rest = f
			} else if in.H.Case != nil && tag != nil {
				rest = in.expr(e, rest)
				nf := set{}
				for k := range rest {
					if s2, ok := in.H.Case(tag, e, true, k.S); ok {
						entry[ist{S: s2, D: k.D}] = struct{}{}
					}
					if s2, ok := in.H.Case(tag, e, false, k.S); ok {
						nf[ist{S: s2, D: k.D}] = struct{}{}
					}
				}
				rest = nf
			} else {
				rest = in.expr(e, rest)
				entry.addAll(rest)
			}
		}
		run(cc, entry)
	}
	if hasDefault {
		run(defaultClause, rest)
	} else {
		out.addAll(rest)
	}
	if fall != nil {
		out.addAll(fall)
	}
	in.loops = in.loops[:len(in.loops)-1]
	out.addAll(l.breaks)
	return out
}

func copySet(s set) set {
	o := make(set, len(s))
	for k := range s {
		o[k] = struct{}{}
	}
	return o
}

// cond evaluates a condition with short-circuit semantics and returns the
// states on the true and the false branch.
func (in *Interp) cond(e ast.Expr, s set) (t, f set) {
	switch x := ast.Unparen(e).(type) {
	case *ast.BinaryExpr:
		if x.Op == token.LAND {
			t1, f1 := in.cond(x.X, s)
			t2, f2 := in.cond(x.Y, t1)
			f1.addAll(f2)
			return t2, f1
		}
		if x.Op == token.LOR {
			t1, f1 := in.cond(x.X, s)
			t2, f2 := in.cond(x.Y, f1)
			t1.addAll(t2)
			return t1, f2
		}
	case *ast.UnaryExpr:
		if x.Op == token.NOT {
			if _, isLeafIdent := ast.Unparen(x.X).(*ast.Ident); !isLeafIdent {
				t1, f1 := in.cond(x.X, s)
				return f1, t1
			}
		}
	}
	s = in.expr(e, s)
	t, f = set{}, set{}
	for k := range s {
		if in.H.Refine == nil {
			t[k] = struct{}{}
			f[k] = struct{}{}
			continue
		}
		if ns, ok := in.H.Refine(e, true, k.S); ok {
			t[ist{S: ns, D: k.D}] = struct{}{}
		}
		if ns, ok := in.H.Refine(e, false, k.S); ok {
			f[ist{S: ns, D: k.D}] = struct{}{}
		}
	}
	return t, f
}

func (in *Interp) lhs(e ast.Expr, s set) set {
	switch x := ast.Unparen(e).(type) {
	case *ast.Ident:
		return s
	case *ast.SelectorExpr:
		return in.expr(x.X, s)
	case *ast.IndexExpr:
		s = in.expr(x.X, s)
		return in.expr(x.Index, s)
	case *ast.StarExpr:
		return in.expr(x.X, s)
	}
	return in.expr(e, s)
}

// expr evaluates an expression's events in order.
func (in *Interp) expr(e ast.Expr, s set) set {
	if e == nil || len(s) == 0 {
		return s
	}
	switch x := e.(type) {
	case *ast.Ident, *ast.BasicLit:
		return s
	case *ast.ParenExpr:
		return in.expr(x.X, s)
	case *ast.FuncLit:
		return in.atom(x, s) // a closure value is created; body not executed here
	case *ast.CompositeLit:
		for _, el := range x.Elts {
			if kv, ok := el.(*ast.KeyValueExpr); ok {
				if _, isIdent := kv.Key.(*ast.Ident); !isIdent {
					s = in.expr(kv.Key, s)
				}
				s = in.expr(kv.Value, s)
			} else {
				s = in.expr(el, s)
			}
		}
		return s
	case *ast.SelectorExpr:
		return in.expr(x.X, s)
	case *ast.IndexExpr:
		s = in.expr(x.X, s)
		return in.expr(x.Index, s)
	case *ast.IndexListExpr:
		return in.expr(x.X, s)
	case *ast.SliceExpr:
		s = in.expr(x.X, s)
		s = in.expr(x.Low, s)
		s = in.expr(x.High, s)
		return in.expr(x.Max, s)
	case *ast.TypeAssertExpr:
		return in.expr(x.X, s)
	case *ast.StarExpr:
		return in.expr(x.X, s)
	case *ast.KeyValueExpr:
		s = in.expr(x.Key, s)
		return in.expr(x.Value, s)
	case *ast.UnaryExpr:
		s = in.expr(x.X, s)
		if x.Op == token.ARROW {
			return in.atom(x, s)
		}
		return s
	case *ast.BinaryExpr:
		if x.Op == token.LAND || x.Op == token.LOR {
			s1 := in.expr(x.X, s)
			s2 := in.expr(x.Y, copySet(s1))
			s1.addAll(s2)
			return s1
		}
		s = in.expr(x.X, s)
		return in.expr(x.Y, s)
	case *ast.CallExpr:
		// immediately-invoked literal: inline
		if lit, ok := ast.Unparen(x.Fun).(*ast.FuncLit); ok {
			for _, a := range x.Args {
				s = in.expr(a, s)
			}
			return in.inlineLit(lit, s)
		}
		// conversion?
		if in.H.Info != nil {
			if tv, ok := in.H.Info.Types[x.Fun]; ok && tv.IsType() {
				for _, a := range x.Args {
					s = in.expr(a, s)
				}
				if in.H.Conversions {
					return in.atom(x, s)
				}
				return s
			}
		}
		if sel, ok := ast.Unparen(x.Fun).(*ast.SelectorExpr); ok {
			s = in.expr(sel.X, s)
		} else if _, ok := ast.Unparen(x.Fun).(*ast.Ident); !ok {
			s = in.expr(x.Fun, s)
		}
		for _, a := range x.Args {
			s = in.expr(a, s)
		}
		if in.terminates(x) {
			// give the rule a chance to see it, then end the path
			in.atom(x, s)
			return set{}
		}
		return in.atom(x, s)
	case *ast.ArrayType, *ast.MapType, *ast.ChanType, *ast.FuncType, *ast.StructType, *ast.InterfaceType, *ast.Ellipsis:
		return s
	}
	return s
}

// terminates recognises calls that never return.
func (in *Interp) terminates(c *ast.CallExpr) bool {
	info := in.H.Info
	if info == nil {
		return false
	}
	switch f := ast.Unparen(c.Fun).(type) {
	case *ast.Ident:
		if b, ok := info.Uses[f].(*types.Builtin); ok && b.Name() == "panic" {
			return true
		}
	case *ast.SelectorExpr:
		if fn, ok := info.Uses[f.Sel].(*types.Func); ok && fn.Pkg() != nil {
			p, n := fn.Pkg().Path(), fn.Name()
			if p == "os" && n == "Exit" {
				return true
			}
			if p == "log" && (n == "Fatal" || n == "Fatalf" || n == "Fatalln" || n == "Panic" || n == "Panicf" || n == "Panicln") {
				return true
			}
		}
	}
	return false
}

// IsErrNilTest reports whether cond is `x != nil` (neq=true) or `x == nil`
// (neq=false) with x of type error, and returns x's object.
func IsErrNilTest(info *types.Info, cond ast.Expr) (obj types.Object, neq bool, ok bool) {
	be, isBin := ast.Unparen(cond).(*ast.BinaryExpr)
	if !isBin || (be.Op != token.NEQ && be.Op != token.EQL) {
		return nil, false, false
	}
	x, y := ast.Unparen(be.X), ast.Unparen(be.Y)
	if isNil(info, x) {
		x, y = y, x
	}
	if !isNil(info, y) {
		return nil, false, false
	}
	tv, has := info.Types[x]
	if !has || tv.Type == nil || !IsErrorType(tv.Type) {
		return nil, false, false
	}
	if id, isId := x.(*ast.Ident); isId {
		obj = info.ObjectOf(id)
	}
	return obj, be.Op == token.NEQ, true
}

func isNil(info *types.Info, e ast.Expr) bool {
	id, ok := e.(*ast.Ident)
	if !ok {
		return false
	}
	_, isNilObj := info.Uses[id].(*types.Nil)
	return isNilObj
}

var errorType = types.Universe.Lookup("error").Type()

func IsErrorType(t types.Type) bool {
	return types.Identical(t, errorType)
}
